------------------------------ MODULE TriplesGen ---------------------------
(* Expectations for the replay into the code: every binary tree of the      *)
(* bound (SpecTrees) and every set of triples on SetLeaves with the trees   *)
(* that display it (SpecSets).                                              *)
EXTENDS TriplesOps
CONSTANTS MaxLeaves, SetLeaves
VARIABLES key, val
vars == <<key, val>>

TreesInit == key \in UNION {AllBinaryTrees(1..k) : k \in 1..MaxLeaves} /\ val = <<"tree">>
SpecTrees == TreesInit /\ [][FALSE]_vars

SetsInit == key \in SUBSET AllTriples(SetLeaves) /\ val = <<"todo">>
SetsNext == /\ val = <<"todo">>
            /\ val' = <<"trees", TreesDisplaying(SetLeaves, key)>>
            /\ UNCHANGED key
SpecSets == SetsInit /\ [][SetsNext]_vars
=============================================================================
