---------------------------- MODULE TraceBranches ---------------------------
(***************************************************************************)
(* Recorded gene-node placements judged against Branches.tla (a drift      *)
(* report of C14, outside the listed properties).                          *)
(*  {"op":"branches","o":"V"|"H","pad":p,"gap":g,                          *)
(*   "items":[{"k","w","h","l","r"},..],"rects":[[x,y,w,h],..]}            *)
(* The recorded rectangles are those of the final layout: they agree with  *)
(* the model up to one translation per species.                            *)
(***************************************************************************)
EXTENDS BranchesOps, Json, IOUtils, TLCExt

Log == ndJsonDeserialize(IOEnv.TRACE_FILE)
VARIABLES l
tvars == <<l>>

Clauses(e) ==
  IF e.op # "branches" THEN {"ClauseUnknownOp"}
  ELSE IF Len(e.items) # Len(e.rects) THEN {"ClauseBranchCount"}
  ELSE IF e.items = <<>> THEN {}
  ELSE IF \E p \in DOMAIN e.items :
            \/ e.items[p].k \notin Kinds
            \/ e.items[p].k \in {"D", "T"} /\ ~(e.items[p].l \in 1..(p - 1))
            \/ e.items[p].k = "D" /\ ~(e.items[p].r \in 1..(p - 1))
       THEN {"ClauseBranchOrder"}     \* a copy placed after the node that refers to it
  ELSE LET want == LayoutBranches(e.items, e.pad, e.gap, e.o)
           dx == e.rects[1][1] - want[1][1]
           dy == e.rects[1][2] - want[1][2]
       IN IF \A p \in DOMAIN want :
               e.rects[p] = <<want[p][1] + dx, want[p][2] + dy, want[p][3], want[p][4]>>
          THEN {} ELSE {"ClauseBranchRects"}

Judge(e) ==
  LET bad == Clauses(e) IN
  IF bad = {} THEN TRUE
  ELSE PrintT(<<"VERDICT", e.n, bad>>) /\ TLCSet(1, TLCGet(1) + 1)

TInit == l = 1 /\ TLCSet(1, 0)
TNext == l <= Len(Log) /\ Judge(Log[l]) /\ l' = l + 1
Spec == TInit /\ [][TNext]_tvars
Consumed ==
  /\ PrintT(<<"SUMMARY", TLCGet("stats").diameter - 1, Len(Log), TLCGet(1)>>)
  /\ TLCGet("stats").diameter - 1 = Len(Log)
=============================================================================
