------------------------------ MODULE OrderedOps ---------------------------
(***************************************************************************)
(* Ordered super-reconciliation (compute/super_reconciliation.py) against  *)
(* the documented model.                                                   *)
(*                                                                         *)
(* An input is [ot, st, lm, c, syn, root]: syn[u] is the sequence of       *)
(* family ids of leaf u (<<>> on internal nodes), root a prescribed root   *)
(* order or <<>>.  Under a root order p (a sequence of distinct families)  *)
(* a synteny is the set of its positions in p; a labelling gives every     *)
(* node a set of positions: the root all of them, a leaf those of its      *)
(* families, every child a subset of its parent's.                         *)
(*   L0: explicit enumeration of mappings x labellings                     *)
(*   L1: pairwise Bellman recurrence over states <<species, positions>>    *)
(*   L2: the five-category recurrence of _compute_spfs_entry (values)      *)
(***************************************************************************)
EXTENDS Events

CONSTANTS ScaleBeforeTest   \* TRUE: the subsequence test is made on count * sloss (defect D4 of the pinned tree)

(***************************************************************************)
(* Root orders and position sets                                           *)
(***************************************************************************)
SeqSet(s) == {s[i] : i \in DOMAIN s}
UsedFams(inp) == IF inp.root # <<>> THEN SeqSet(inp.root)
                 ELSE UNION {SeqSet(inp.syn[u]) : u \in Leaves(inp.ot)}
PosIn(p, f) == CHOOSE x \in DOMAIN p : p[x] = f
IsOrderFor(inp, p) ==
  \A u \in Leaves(inp.ot) : \A z \in 1..(Len(inp.syn[u]) - 1) :
     PosIn(p, inp.syn[u][z]) < PosIn(p, inp.syn[u][z + 1])
Injective(p) == \A i, j \in DOMAIN p : i # j => p[i] # p[j]
\* the orders of the root synteny compatible with every leaf
RootOrders(inp) ==
  LET used == UsedFams(inp)
      k == Cardinality(used)
  IN IF inp.root # <<>> THEN (IF Injective(inp.root) /\ IsOrderFor(inp, inp.root) THEN {inp.root} ELSE {})
     ELSE {p \in [1..k -> used] : Injective(p) /\ IsOrderFor(inp, p)}

LeafPos(inp, p, u) == {PosIn(p, inp.syn[u][i]) : i \in DOMAIN inp.syn[u]}
\* positions that every label of u must hold (its leaves' positions)
Below(inp, OI, p, u) == UNION {LeafPos(inp, p, w) : w \in Clade(inp.ot, OI, u)}
SynOf(p, P) == LET idx == SetToSortSeq(P, LAMBDA a, b : a < b) IN [i \in DOMAIN idx |-> p[idx[i]]]

(***************************************************************************)
(* Segmental losses: maximal runs of parent positions missing in the child *)
(***************************************************************************)
Seg(C, P, edges) ==
  LET q == SetToSortSeq(P, LAMBDA a, b : a < b)
      L == Len(q)
      runs == {r \in (1..L) \X (1..L) :
                 /\ r[1] <= r[2]
                 /\ \A x \in r[1]..r[2] : q[x] \notin C
                 /\ (r[1] = 1 \/ q[r[1] - 1] \in C)
                 /\ (r[2] = L \/ q[r[2] + 1] \in C)}
  IN IF edges THEN Cardinality(runs)
     ELSE Cardinality({r \in runs : r[1] # 1 /\ r[2] # L})

\* labelling cost of one internal node of kind k with label P, children Cl, Cr
LabOrd(c, kind, P, Cl, Cr) ==
  c.sloss *
  (CASE kind = "S" -> Seg(Cl, P, TRUE) + Seg(Cr, P, TRUE)
     [] kind = "D" -> Min2(Seg(Cl, P, TRUE) + Seg(Cr, P, FALSE), Seg(Cl, P, FALSE) + Seg(Cr, P, TRUE))
     [] kind = "TL" -> Seg(Cl, P, TRUE) + Seg(Cr, P, FALSE)
     [] kind = "TR" -> Seg(Cl, P, FALSE) + Seg(Cr, P, TRUE)
     [] OTHER -> 0)

LocalOrd(I, c, s, P, ql, qr) ==
  LET kind == Event(I, s, ql[1], qr[1]) IN
  IF kind = "X" \/ ~(ql[2] \subseteq P) \/ ~(qr[2] \subseteq P) THEN Inf
  ELSE Add(NodeCost(I, c, s, ql[1], qr[1]), LabOrd(c, kind, P, ql[2], qr[2]))

(***************************************************************************)
(* L1: pairwise Bellman recurrence for one root order                      *)
(***************************************************************************)
SpeciesFor(I, lca, base, u) == IF base THEN {lca[u]} ELSE 1..I.n
LabelsFor(inp, OI, p, u) ==
  IF IsLeaf(inp.ot, u) THEN {LeafPos(inp, p, u)}
  ELSE IF u = 1 THEN {DOMAIN p}
  ELSE LET need == Below(inp, OI, p, u) IN {need \cup X : X \in SUBSET ((DOMAIN p) \ need)}

\* a cell is [v |-> optimum, arg |-> the pairs of child states achieving it]
CellOf(cands) ==
  LET v == SetMin({x[1] : x \in cands})
  IN [v |-> v, arg |-> IF v >= Inf THEN {} ELSE {<<x[2], x[3]>> : x \in {y \in cands : y[1] = v}}]

OrdRow(inp, I, OI, lca, base, p, prev, u) ==
  LET ot == inp.ot IN
  IF IsLeaf(ot, u) THEN [q \in {<<inp.lm[u], LeafPos(inp, p, u)>>} |-> [v |-> 0, arg |-> {}]]
  ELSE LET l == Left(ot, u)
           r == Right(ot, u)
           fl == {q \in DOMAIN prev[l] : prev[l][q].v < Inf}
           fr == {q \in DOMAIN prev[r] : prev[r][q].v < Inf}
       IN [q \in SpeciesFor(I, lca, base, u) \X LabelsFor(inp, OI, p, u) |->
             CellOf({<<Add3(LocalOrd(I, inp.c, q[1], q[2], ql, qr), prev[l][ql].v, prev[r][qr].v), ql, qr>> :
                       ql \in fl, qr \in fr})]

OrdTable(inp, I, OI, lca, base, p) ==
  FoldLeft(LAMBDA acc, u : (u :> OrdRow(inp, I, OI, lca, base, p, acc, u)) @@ acc, <<>>, BottomUp(inp.ot))

OrdRootMin(T) == SetMin({T[1][q].v : q \in DOMAIN T[1]})

\* optimal assignments of the subtree of u given state q of u, along the stored argmins
RECURSIVE OrdDecode(_, _, _, _)
OrdDecode(ot, T, u, q) ==
  IF IsLeaf(ot, u) THEN {(u :> q)}
  ELSE UNION {{(u :> q) @@ al @@ ar : al \in OrdDecode(ot, T, Left(ot, u), pr[1]),
                                      ar \in OrdDecode(ot, T, Right(ot, u), pr[2])} : pr \in T[u][q].arg}

\* a solution: species of every node and synteny (family sequence) of every node
SolOf(inp, p, a) == [m |-> [u \in Nodes(inp.ot) |-> a[u][1]],
                     lab |-> [u \in Nodes(inp.ot) |-> SynOf(p, a[u][2])]]

\* minimum and optimal solutions over every root order (L1).  (TLC evaluates
\* operator arguments once but re-evaluates LET definitions used under nested
\* quantifiers: tables and minima are therefore handed down as arguments.)
OrdPerM(inp, p, T, mn) ==
  [min |-> mn,
   sols |-> IF mn >= Inf THEN {}
            ELSE UNION {{SolOf(inp, p, a) : a \in OrdDecode(inp.ot, T, 1, q)} :
                          q \in {x \in DOMAIN T[1] : T[1][x].v = mn}}]
OrdPerT(inp, p, T) == OrdPerM(inp, p, T, OrdRootMin(T))
OrdExpP(orders, per, mn) ==
  [min |-> mn, norders |-> Cardinality(orders),
   opt |-> IF mn >= Inf THEN {} ELSE UNION {per[p].sols : p \in {x \in orders : per[x].min = mn}}]
OrdExpO(orders, per) == OrdExpP(orders, per, SetMin({per[p].min : p \in orders}))
OrdExpL(inp, I, OI, base, lca, orders) ==
  OrdExpO(orders, [p \in orders |-> OrdPerT(inp, p, OrdTable(inp, I, OI, lca, base, p))])
OrdExpected(inp, I, OI, base) ==
  OrdExpL(inp, I, OI, base, LcaMap(inp.ot, OI, I, inp.lm), RootOrders(inp))

(***************************************************************************)
(* Validity and cost of one given solution (used by trace validation and   *)
(* by the evaluator property): syntenies as family sequences.              *)
(***************************************************************************)
IsSubseqOf(a, b) ==   \* a is a subsequence of b (b has distinct elements)
  /\ SeqSet(a) \subseteq SeqSet(b)
  /\ Injective(a)
  /\ \A i \in 1..(Len(a) - 1) : PosIn(b, a[i]) < PosIn(b, a[i + 1])
ValidOrd(inp, I, sol) ==
  LET ot == inp.ot IN
  /\ Valid(ot, I, inp.lm, sol.m)
  /\ \A u \in Leaves(ot) : sol.lab[u] = inp.syn[u]
  /\ Injective(sol.lab[1])
  /\ SeqSet(sol.lab[1]) = UsedFams(inp)
  /\ inp.root # <<>> => sol.lab[1] = inp.root
  /\ \A u \in Internal(ot) : /\ IsSubseqOf(sol.lab[Left(ot, u)], sol.lab[u])
                             /\ IsSubseqOf(sol.lab[Right(ot, u)], sol.lab[u])
PosSet(p, s) == {PosIn(p, s[i]) : i \in DOMAIN s}
LabCostOrd(inp, I, sol) ==
  LET ot == inp.ot
      p == sol.lab[1]
  IN FoldLeft(LAMBDA acc, u :
                acc + LabOrd(inp.c, Event(I, sol.m[u], sol.m[Left(ot, u)], sol.m[Right(ot, u)]),
                             PosSet(p, sol.lab[u]), PosSet(p, sol.lab[Left(ot, u)]),
                             PosSet(p, sol.lab[Right(ot, u)])),
              0, SetToSeq(Internal(ot)))
CostOrd(inp, I, sol) == Add(RecCost(inp.ot, I, inp.c, sol.m), LabCostOrd(inp, I, sol))

(***************************************************************************)
(* L0: explicit enumeration (smallest bound only)                          *)
(***************************************************************************)
AllLabellings(inp, p) ==
  LET ot == inp.ot
      k == Len(p)
  IN {[u \in Nodes(ot) |-> IF IsLeaf(ot, u) THEN LeafPos(inp, p, u) ELSE IF u = 1 THEN 1..k ELSE f[u]] :
        f \in [Internal(ot) -> SUBSET (1..k)]}
L0Solutions(inp, I, OI, base) ==
  LET ot == inp.ot
      lca == LcaMap(ot, OI, I, inp.lm)
      maps == IF base THEN {lca} ELSE ValidMappings(ot, I, inp.lm)
  IN UNION {{[m |-> m, lab |-> [u \in Nodes(ot) |-> SynOf(p, lb[u])]] :
               m \in maps, lb \in {x \in AllLabellings(inp, p) :
                                     \A u \in Internal(ot) : x[Left(ot, u)] \subseteq x[u] /\ x[Right(ot, u)] \subseteq x[u]}} :
            p \in RootOrders(inp)}
L0Expected(inp, I, OI, base) ==
  LET ranked == {<<s, CostOrd(inp, I, s)>> : s \in {x \in L0Solutions(inp, I, OI, base) : Valid(inp.ot, I, inp.lm, x.m)}}
  IN [min |-> MinOf(ranked), opt |-> OptOf(ranked)]

(***************************************************************************)
(* L2: the recurrence as _compute_spfs_entry organises it (values only):   *)
(* per child the best `left`, `right`, `conserved`, `segment`, `separate`  *)
(* candidates, combined per event kind.  Labels range over every subset of *)
(* positions, as the code's masks do.                                      *)
(***************************************************************************)
L2Labels(inp, p, u) == IF IsLeaf(inp.ot, u) THEN {LeafPos(inp, p, u)}
                       ELSE IF u = 1 THEN {DOMAIN p} ELSE SUBSET (DOMAIN p)
\* subseq_segment_dist on position sets: -1 when not contained
SegCode(C, P, edges) == IF ~(C \subseteq P) THEN -1 ELSE
                        IF C = {} THEN (IF P = {} THEN 0 ELSE IF edges THEN 1 ELSE -1) ELSE Seg(C, P, edges)
L2Cell(inp, I, prev, u, s, P) ==
  LET c == inp.c
      ot == inp.ot
      ch == <<Left(ot, u), Right(ot, u)>>
      spch == Children(I.par, s)
      ls == IF spch = {} THEN 0 ELSE s + 1
      rs == IF spch = {} THEN 0 ELSE CHOOSE v \in spch : v # s + 1
      sepS == {x \in 1..I.n : ~IsAnc(I, s, x) /\ ~IsAnc(I, x, s)}
      Cat(i) ==
        LET cc == ch[i]
            skip(q) == IF ScaleBeforeTest THEN SegCode(q[2], P, TRUE) * c.sloss < 0
                       ELSE SegCode(q[2], P, TRUE) < 0
            fin == {q \in DOMAIN prev[cc] : prev[cc][q] < Inf /\ ~skip(q)}
            above(x) == c.floss * I.dist[s][x]
            cv(q) == c.sloss * SegCode(q[2], P, TRUE)
            sg(q) == c.sloss * SegCode(q[2], P, FALSE)
            inq == {q \in fin : q[1] \in I.desc[s]}
            side(root) == IF root = 0 THEN Inf
                          ELSE SetMin({above(q[1]) - c.floss + prev[cc][q] + cv(q) :
                                         q \in {z \in fin : z[1] \in I.desc[root]}})
        IN [cons |-> SetMin({above(q[1]) + prev[cc][q] + cv(q) : q \in inq}),
            segm |-> SetMin({above(q[1]) + prev[cc][q] + sg(q) : q \in inq}),
            sepa |-> SetMin({prev[cc][q] + sg(q) : q \in {z \in fin : z[1] \in sepS}}),
            left |-> side(ls), right |-> side(rs)]
      a == Cat(1)
      b == Cat(2)
  IN SetMin({Add3(c.spe, a.left, b.right), Add3(c.spe, a.right, b.left),
             Add3(c.dup, a.cons, b.segm), Add3(c.dup, a.segm, b.cons),
             Add3(c.hgt, a.cons, b.sepa), Add3(c.hgt, a.sepa, b.cons)})

L2Row(inp, I, lca, base, p, prev, u) ==
  IF IsLeaf(inp.ot, u) THEN [q \in {<<inp.lm[u], LeafPos(inp, p, u)>>} |-> 0]
  ELSE [q \in SpeciesFor(I, lca, base, u) \X L2Labels(inp, p, u) |-> L2Cell(inp, I, prev, u, q[1], q[2])]

=============================================================================
