---------------------------- MODULE ToposortGen ----------------------------
(* Expectations for the replay into the code: one state per graph with its  *)
(* set of topological orderings.                                            *)
EXTENDS ToposortOps
CONSTANTS Graphs
VARIABLES key, val
vars == <<key, val>>
Init == key \in Graphs /\ val = <<"todo">>
Next == /\ val = <<"todo">>
        /\ val' = <<"orders", AllOrders(key)>>
        /\ UNCHANGED key
Spec == Init /\ [][Next]_vars
=============================================================================
