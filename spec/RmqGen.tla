-------------------------------- MODULE RmqGen -----------------------------
(***************************************************************************)
(* Expectations for the replay into the code (E2): one state per array     *)
(* (every range -> minimum) and one per tree (every query -> answer by     *)
(* definition on parent chains).                                           *)
(***************************************************************************)
EXTENDS RmqOps
CONSTANTS MaxLen, Vals, Shapes, MaxArgs

VARIABLES key, val
vars == <<key, val>>

Arrays == UNION {[1..n -> Vals] : n \in 1..MaxLen}
Elems(a) == [i \in 1..Len(a) |-> <<a[i], i - 1>>]

ArrInit == key \in Arrays /\ val = <<>>
ArrNext == /\ val = <<>>
           /\ val' = [s \in 0..Len(key) |-> [e \in 0..Len(key) |-> RangeMin(Elems(key), s, e)]]
           /\ UNCHANGED key
SpecArr == ArrInit /\ [][ArrNext]_vars

TreeInit == key \in Shapes /\ val = <<>>
TreeNext ==
  /\ val = <<>>
  /\ val' = LET N == Nodes(key) IN
            [lca2 |-> [a \in N |-> [b \in N |-> LcaDef(key, {a, b})]],
             lca3 |-> IF MaxArgs >= 3
                      THEN [a \in N |-> [b \in N |-> [c \in N |-> LcaDef(key, {a, b, c})]]]
                      ELSE <<>>,
             anc |-> [a \in N |-> {b \in N : IsAncDef(key, a, b)}],
             lev |-> [a \in N |-> LevelDef(key, a)],
             dist |-> [a \in N |-> [b \in N |-> DistDef(key, a, b)]]]
  /\ UNCHANGED key
SpecTree == TreeInit /\ [][TreeNext]_vars
=============================================================================
