------------------------------- MODULE Drawing -----------------------------
(***************************************************************************)
(* The abstract drawing of a reconciliation (render/layout.py,             *)
(* render/tikz.py), derived from the event model of Events.tla alone:      *)
(*  - one event node per object node, in the species it is mapped to, of   *)
(*    the kind the event model assigns;                                    *)
(*  - one loss marker per full loss, in the species where it occurs        *)
(*    (LossSites);                                                         *)
(*  - one arrow per transfer, from the transfer node to the transferred    *)
(*    child (anchored in that child's species);                            *)
(*  - the effective colour of a node: that of its nearest coloured         *)
(*    ancestor-or-self (C15).                                              *)
(***************************************************************************)
EXTENDS Events

DrawKind(k) == IF k \in {"TL", "TR"} THEN "T" ELSE k

EventNodes(ot, I, m) == {<<DrawKind(EventAt(ot, I, m, u)), m[u], u>> : u \in Nodes(ot)}

\* species of the loss markers as a bag: species -> number of markers
LossSitesOf(ot, I, m, u) ==
  LET s == m[u]
      sl == m[Left(ot, u)]
      sr == m[Right(ot, u)]
      k == EventAt(ot, I, m, u)
  IN CASE k = "S" -> <<LossSites(I, "S", s, sl), LossSites(I, "S", s, sr)>>
       [] k = "D" -> <<LossSites(I, "D", s, sl), LossSites(I, "D", s, sr)>>
       [] k = "TL" -> <<LossSites(I, "D", s, sl), {}>>
       [] k = "TR" -> <<{}, LossSites(I, "D", s, sr)>>
       [] OTHER -> <<{}, {}>>
LossCount(ot, I, m, x) ==
  FoldLeft(LAMBDA acc, u : LET p == LossSitesOf(ot, I, m, u) IN
                           acc + (IF x \in p[1] THEN 1 ELSE 0) + (IF x \in p[2] THEN 1 ELSE 0),
           0, SetToSeq(Internal(ot)))
LossBag(ot, I, m) == [x \in 1..I.n |-> LossCount(ot, I, m, x)]

\* <<transfer node, transferred child, species of the transferred child>>
Arrows(ot, I, m) ==
  {<<u, IF EventAt(ot, I, m, u) = "TL" THEN Right(ot, u) ELSE Left(ot, u),
        m[IF EventAt(ot, I, m, u) = "TL" THEN Right(ot, u) ELSE Left(ot, u)]>> :
     u \in {v \in Internal(ot) : EventAt(ot, I, m, v) \in {"TL", "TR"}}}

\* colours: col[u] = "" when the node carries none
RECURSIVE EffColour(_, _, _)
EffColour(ot, col, u) == IF col[u] # "" THEN col[u]
                         ELSE IF ot[u] = 0 THEN "" ELSE EffColour(ot, col, ot[u])
=============================================================================
