------------------------------- MODULE SubseqOps ---------------------------
(***************************************************************************)
(* Subsequence masks and segment distances (utils/subsequences.py).        *)
(*                                                                         *)
(* Declarative layer (property C18): a mask is a natural number, bit i     *)
(* stands for position i of the parent sequence; SegDist counts maximal    *)
(* runs of parent positions missing from the child, by definition on the   *)
(* sorted sequence of parent positions.                                    *)
(* Code-shaped layer: the bit-scan loop of subseq_segment_dist as a state  *)
(* machine (one bit per action) with its loop invariant, and the greedy    *)
(* matching loop of mask_from_subseq / the shifting loop of                *)
(* subseq_from_mask as folds.                                              *)
(***************************************************************************)
EXTENDS Integers, Sequences, FiniteSets, SequencesExt, FiniteSetsExt, TLC

Bit(m, i) == (m \div (2 ^ i)) % 2
RECURSIVE BitLen(_)
BitLen(m) == IF m = 0 THEN 0 ELSE 1 + BitLen(m \div 2)
BitsOf(m) == {i \in 0..(BitLen(m) - 1) : Bit(m, i) = 1}
MaskOfSet(S) == FoldSet(LAMBDA i, acc : acc + 2 ^ i, 0, S)

(***************************************************************************)
(* Declarative segment distance.                                           *)
(***************************************************************************)
Contained(child, parent) == BitsOf(child) \subseteq BitsOf(parent)

\* maximal runs of consecutive parent positions (in increasing order) that are
\* missing from the child, as pairs <<first index, last index>> into the sorted
\* sequence q of parent positions
Runs(C, q) ==
  LET L == Len(q) IN
  {r \in (1..L) \X (1..L) :
     /\ r[1] <= r[2]
     /\ \A x \in r[1]..r[2] : q[x] \notin C
     /\ (r[1] = 1 \/ q[r[1] - 1] \in C)
     /\ (r[2] = L \/ q[r[2] + 1] \in C)}

SegDist(child, parent, edges) ==
  IF ~Contained(child, parent) THEN -1
  ELSE LET q == SetToSortSeq(BitsOf(parent), LAMBDA a, b : a < b)
           C == BitsOf(child)
           runs == Runs(C, q)
       IN IF edges THEN Cardinality(runs)
          ELSE Cardinality({r \in runs : r[1] # 1 /\ r[2] # Len(q)})

\* the same number through run *starts* (cheaper; equality with SegDist is an
\* invariant checked by TLC; valid for a non-empty child)
RunStarts(C, q) == {x \in 1..Len(q) : q[x] \notin C /\ (x = 1 \/ q[x - 1] \in C)}
SegDistStarts(child, parent, edges) ==
  IF ~Contained(child, parent) THEN -1
  ELSE LET q == SetToSortSeq(BitsOf(parent), LAMBDA a, b : a < b)
           C == BitsOf(child)
           n == Cardinality(RunStarts(C, q))
       IN IF edges \/ Len(q) = 0 THEN n
          ELSE n - (IF q[1] \notin C THEN 1 ELSE 0) - (IF q[Len(q)] \notin C THEN 1 ELSE 0)

(***************************************************************************)
(* Masks and subsequences of a sequence of distinct elements.              *)
(***************************************************************************)
Distinct(s) == \A i, j \in DOMAIN s : i # j => s[i] # s[j]
\* the subsequence selected by a mask (bit i = element i+1 of the parent)
SubseqOf(mask, parent) ==
  LET idx == SetToSortSeq({i \in 1..Len(parent) : Bit(mask, i - 1) = 1}, LAMBDA a, b : a < b)
  IN [x \in 1..Len(idx) |-> parent[idx[x]]]
\* the mask of a subsequence: positions of its elements in the parent
MaskOf(child, parent) ==
  MaskOfSet({i - 1 : i \in {j \in 1..Len(parent) : \E x \in DOMAIN child : child[x] = parent[j]}})
Complete(parent) == 2 ^ Len(parent) - 1
IsSubseq(child, parent) ==
  \E mask \in 0..Complete(parent) : SubseqOf(mask, parent) = child

\* code-shaped: greedy left-to-right matching of mask_from_subseq
ImplMaskOf(child, parent) ==
  LET step(st, pi) ==
        IF st.ci = Len(child) THEN st
        ELSE IF child[st.ci + 1] = parent[pi]
             THEN [ci |-> st.ci + 1, mask |-> st.mask + 2 ^ (pi - 1)]
             ELSE st
  IN FoldLeft(step, [ci |-> 0, mask |-> 0], [i \in 1..Len(parent) |-> i]).mask

\* code-shaped: shifting loop of subseq_from_mask
RECURSIVE ImplSubseqOf(_, _, _)
ImplSubseqOf(mask, parent, pi) ==
  IF mask = 0 THEN <<>>
  ELSE (IF mask % 2 = 1 THEN <<parent[pi]>> ELSE <<>>) \o ImplSubseqOf(mask \div 2, parent, pi + 1)

=============================================================================
