--------------------------------- MODULE Tikz ------------------------------
(***************************************************************************)
(* A model of the document generator tikz.render: statements are collected *)
(* in layers while colours are interned on first use (get_color); the      *)
(* document is the colour definitions followed by one picture holding the  *)
(* layers.  TLC checks that every document this generator can emit is      *)
(* accepted by the automaton of TikzOps, and that the wrap contract is met  *)
(* by greedy wrapping itself.                                              *)
(***************************************************************************)
EXTENDS TikzOps

CONSTANTS Palette,        \* colour names
          MaxStatements,
          DefineOnlyFirst  \* TRUE: only the first interned colour gets a definition (self-test mutant)

VARIABLES stmts, interned, doc, pc
vars == <<stmts, interned, doc, pc>>
Tok(t) == [t |-> t, c |-> ""]
Init == stmts = <<>> /\ interned = <<>> /\ doc = <<>> /\ pc = "collect"
\* a statement: \path[style={colour}] ... ;  uses one colour inside braces
Emit(c) == /\ pc = "collect" /\ Len(stmts) < 5 * MaxStatements
           /\ stmts' = stmts \o <<Tok("stmt"), Tok("{"), [t |-> "use", c |-> c], Tok("}"), Tok(";")>>
           /\ interned' = IF \E i \in DOMAIN interned : interned[i] = c THEN interned ELSE Append(interned, c)
           /\ UNCHANGED <<doc, pc>>
Assemble == /\ pc = "collect" /\ pc' = "done"
            /\ doc' = LET defs == IF DefineOnlyFirst /\ Len(interned) > 0 THEN SubSeq(interned, 1, 1) ELSE interned
                      IN FoldLeft(LAMBDA acc, c : acc \o <<[t |-> "def", c |-> c]>>, <<>>, defs)
                         \o <<Tok("begin")>> \o stmts \o <<Tok("end")>>
            /\ UNCHANGED <<stmts, interned>>
Next == (\E c \in Palette : Emit(c)) \/ Assemble
Spec == Init /\ [][Next]_vars
AcceptedInv == pc = "done" => Run(doc) = {}

\* greedy wrapping meets the wrap contract (so "no more lines than greedy" is satisfiable)
CONSTANTS WordLens, MaxWords, Widths
GreedyWrap(lens, w) ==
  FoldLeft(LAMBDA acc, n : IF acc = <<>> THEN <<<<n>>>>
                           ELSE IF LineLen(acc[Len(acc)]) + 1 + n <= w THEN [acc EXCEPT ![Len(acc)] = Append(@, n)]
                           ELSE Append(acc, <<n>>), <<>>, lens)
GreedyMeetsContract ==
  \A k \in 1..MaxWords : \A lens \in [1..k -> WordLens] : \A w \in Widths :
     WrapClauses(lens, w, GreedyWrap(lens, w)) = {} /\ Len(GreedyWrap(lens, w)) = GreedyLines(lens, w)
=============================================================================
