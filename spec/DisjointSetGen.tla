---------------------------- MODULE DisjointSetGen -------------------------
(* Expectations for the replay into the code: every history of unite / find *)
(* up to MaxHist operations on N elements, with the partition it generates, *)
(* the result of its last operation and the two-block coarsenings.          *)
EXTENDS DisjointSetOps
CONSTANTS N, MaxHist, OrderedPairs
VARIABLES hist, part, last
vars == <<hist, part, last>>

Pairs == IF OrderedPairs THEN (0..(N - 1)) \X (0..(N - 1))
         ELSE {p \in (0..(N - 1)) \X (0..(N - 1)) : p[1] < p[2]}
Init == hist = <<>> /\ part = Singletons(N) /\ last = "none"
Unite(a, b) == /\ Len(hist) < MaxHist
               /\ hist' = Append(hist, <<"u", a, b>>)
               /\ part' = Merge(part, a, b)
               /\ last' = IF BlockOf(part, a) = BlockOf(part, b) THEN "same" ELSE "merged"
Find(a) == /\ Len(hist) < MaxHist
           /\ hist' = Append(hist, <<"f", a, a>>)
           /\ part' = part /\ last' = "found"
Next == (\E p \in Pairs : Unite(p[1], p[2])) \/ (\E a \in 0..(N - 1) : Find(a))
Spec == Init /\ [][Next]_vars
\* the code-shaped structure follows every history
ImplAfter(h) == FoldLeft(LAMBDA d, op : IF op[1] = "u" THEN UniteImpl(d, op[2], op[3]).ds
                                         ELSE FindImpl(d, op[2]).ds, Fresh(N), h)
HistInv == Blocks(ImplAfter(hist)) = part /\ ImplAfter(hist).groups = Cardinality(part)
=============================================================================
