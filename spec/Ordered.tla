------------------------------ MODULE Ordered ------------------------------
(* State-machine front end over OrderedOps: generation of expectations and the
   code-shaped table filled one object node per action. *)
EXTENDS OrderedOps

(***************************************************************************)
(* Model-checking front end                                                *)
(***************************************************************************)
CONSTANTS Inputs, SpShapes, ObShapes, Base, WithL0
SpInfo == [st \in SpShapes |-> Info(st)]
ObInfo == [ot \in ObShapes |-> Info(ot)]

VARIABLES input, order, pc, k, table, expect
vars == <<input, order, pc, k, table, expect>>

\* generation of expectations (E2)
InitGen == /\ input \in Inputs /\ order = <<>> /\ pc = "gen" /\ k = 0 /\ table = <<>> /\ expect = <<>>
Gen == /\ pc = "gen" /\ pc' = "done"
       /\ expect' = OrdExpected(input, SpInfo[input.st], ObInfo[input.ot], Base)
       /\ UNCHANGED <<input, order, k, table>>
SpecGen == InitGen /\ [][Gen]_vars
\* L1 = L0 where L0 is affordable
L1EqualsL0 == (pc = "done" /\ WithL0) =>
  LET e0 == L0Expected(input, SpInfo[input.st], ObInfo[input.ot], Base)
  IN e0.min = expect.min /\ e0.opt = expect.opt
\* every optimal solution is valid, and no compatible order gives no solution
OptValid == pc = "done" =>
  /\ \A s \in expect.opt : ValidOrd(input, SpInfo[input.st], s) /\ CostOrd(input, SpInfo[input.st], s) = expect.min
  /\ expect.norders = 0 => expect.opt = {}

\* every valid solution (mapping x root order x labelling) with its costs (C06)
EvalExpected(inp, I, OI) ==
  {[sol |-> s, rcost |-> RecCost(inp.ot, I, inp.c, s.m), lcost |-> LabCostOrd(inp, I, s)] :
     s \in {x \in L0Solutions(inp, I, OI, FALSE) : ValidOrd(inp, I, x)}}
GenEval == /\ pc = "gen" /\ pc' = "done"
           /\ expect' = EvalExpected(input, SpInfo[input.st], ObInfo[input.ot])
           /\ UNCHANGED <<input, order, k, table>>
SpecEval == InitGen /\ [][GenEval]_vars

\* the code-shaped table filled one object node per action, for every root order (E1)
InitSteps == /\ input \in Inputs /\ order \in RootOrders(input)
             /\ pc = "fill" /\ k = Len(input.ot) /\ table = <<>> /\ expect = <<>>
FillNode == /\ pc = "fill" /\ k >= 1
            /\ table' = (k :> L2Row(input, SpInfo[input.st],
                                    LcaMap(input.ot, ObInfo[input.ot], SpInfo[input.st], input.lm),
                                    Base, order, table, k)) @@ table
            /\ k' = k - 1
            /\ pc' = IF k = 1 THEN "filled" ELSE "fill"
            /\ UNCHANGED <<input, order, expect>>
SpecSteps == InitSteps /\ [][FillNode]_vars
\* every filled cell is the Bellman optimum of its sub-problem; labels that
\* cannot hold the leaves below stay infinite
CellInv == (k < Len(input.ot)) =>
  LET I == SpInfo[input.st]
      OI == ObInfo[input.ot]
      T1 == OrdTable(input, I, OI, LcaMap(input.ot, OI, I, input.lm), Base, order)
      u == k + 1
  IN \A q \in DOMAIN table[u] :
       table[u][q] = IF q \in DOMAIN T1[u] THEN T1[u][q].v ELSE Inf
=============================================================================
