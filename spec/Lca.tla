--------------------------------- MODULE Lca -------------------------------
(***************************************************************************)
(* State machine of LowestCommonAncestor: Euler tour, first occurrences,   *)
(* sparse table over <<level, node>>, then one arbitrary query of one to   *)
(* three nodes; the derived queries (ancestor, strict ancestor,            *)
(* comparable, level, distance) are operators over the same structure.     *)
(***************************************************************************)
EXTENDS RmqOps

CONSTANTS Shapes,     \* the tree shapes explored
          MaxArgs,    \* lca queries take 1..MaxArgs nodes
          QueryOff

VARIABLES tree, tour, table, d, q, ans, pc
vars == <<tree, tour, table, d, q, ans, pc>>

Init == /\ tree \in Shapes
        /\ tour = <<>> /\ table = <<>> /\ d = 0 /\ q = <<>> /\ ans = 0
        /\ pc = "tour"

Tour == /\ pc = "tour"
        /\ tour' = Euler(tree, 1, 0)
        /\ table' = (0 :> Level0(Euler(tree, 1, 0)))
        /\ d' = 1 /\ pc' = "build"
        /\ UNCHANGED <<tree, q, ans>>

Build == /\ pc = "build"
         /\ IF d < Levels(Len(tour))
            THEN /\ table' = (d :> NextLevel(table[d - 1], Len(tour), d)) @@ table
                 /\ d' = d + 1 /\ pc' = pc
            ELSE /\ pc' = "ready" /\ UNCHANGED <<table, d>>
         /\ UNCHANGED <<tree, tour, q, ans>>

\* code-shaped query: range between the extreme first occurrences
ImplLca(nodes) ==
  LET idx == {FirstOcc(tour, nodes[i]) : i \in DOMAIN nodes}
  IN QueryWith(table, Min(idx), Max(idx) + 1, QueryOff)[2]
ImplLevel(u) == tour[FirstOcc(tour, u) + 1][1]
ImplIsAnc(a, b) == ImplLca(<<a, b>>) = a
ImplIsStrictAnc(a, b) == ImplLca(<<a, b>>) = a /\ a # b
ImplComparable(a, b) == ImplIsAnc(a, b) \/ ImplIsAnc(b, a)
ImplDist(a, b) == ImplLevel(a) + ImplLevel(b) - 2 * ImplLevel(ImplLca(<<a, b>>))

Ask(nodes) == /\ pc = "ready"
              /\ q' = nodes /\ ans' = ImplLca(nodes) /\ pc' = "answered"
              /\ UNCHANGED <<tree, tour, table, d>>

Queries == UNION {[1..k -> Nodes(tree)] : k \in 1..MaxArgs}
Next == Tour \/ Build \/ \E nodes \in Queries : Ask(nodes)
Spec == Init /\ [][Next]_vars

\* the tour visits every node, consecutive levels differ by one, length 2n-1 for
\* trees without unary... in general: one entry per node plus one per edge
TourInv == pc # "tour" =>
  /\ Len(tour) = 2 * Len(tree) - 1
  /\ {tour[i][2] : i \in DOMAIN tour} = Nodes(tree)
  /\ \A i \in DOMAIN tour : tour[i][1] = LevelDef(tree, tour[i][2])
  /\ \A i \in 1..(Len(tour) - 1) : tour[i + 1][1] - tour[i][1] \in {-1, 1}
\* the code compares <<level, node>> tuples: two different nodes never tie on the
\* level inside one comparison of the build (the node objects are not ordered)
TieFree == \A k \in DOMAIN table : k > 0 =>
  \A i \in 0..(Len(tour) - 2 ^ k) :
    LET a == table[k - 1][i]
        b == table[k - 1][i + 2 ^ (k - 1)]
    IN a[1] = b[1] => a[2] = b[2]
AnswerInv == pc = "answered" => ans = LcaDef(tree, {q[i] : i \in DOMAIN q})
DerivedInv == pc = "ready" =>
  \A a, b \in Nodes(tree) :
    /\ ImplIsAnc(a, b) = IsAncDef(tree, a, b)
    /\ ImplIsStrictAnc(a, b) = (IsAncDef(tree, a, b) /\ a # b)
    /\ ImplComparable(a, b) = (IsAncDef(tree, a, b) \/ IsAncDef(tree, b, a))
    /\ ImplLevel(a) = LevelDef(tree, a)
    /\ ImplDist(a, b) = DistDef(tree, a, b)
\* the ancestry tables used by every solver specification (Trees!Info) agree
\* with the same definitions
InfoInv == pc = "ready" =>
  LET I == Info(tree) IN
  \A a, b \in Nodes(tree) :
    /\ I.lca[a][b] = LcaDef(tree, {a, b})
    /\ I.dist[a][b] = DistDef(tree, a, b)
    /\ I.lev[a] = LevelDef(tree, a)
=============================================================================
