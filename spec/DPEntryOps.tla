------------------------------ MODULE DPEntryOps ---------------------------
(***************************************************************************)
(* Entries and cells of superrec2's dynamic-programming toolkit            *)
(* (utils/dynamic_programming.py: Entry, EntryProxy, Table).               *)
(*                                                                         *)
(* Two layers live here:                                                   *)
(*  - the CONTRACT (property C16): what value and tags an entry may hold   *)
(*    after it has been offered a set of candidates;                       *)
(*  - the CODE-SHAPED step ImplStep, a transcription of the two `if`s of   *)
(*    Entry.update, of Entry.combine and of the EntryProxy write path.     *)
(* The state machine below drives the code-shaped layer with every         *)
(* candidate, batch, merge and combination and TLC checks the contract in  *)
(* every reachable state.                                                  *)
(***************************************************************************)
EXTENDS Integers, Sequences, FiniteSets, TLC, SequencesExt, FiniteSetsExt

CONSTANTS StaleTagsBug   \* TRUE reproduces the defect of the pinned tree (D6)

Inf == 1000000
NoTag == "none"
MPs == {"MIN", "MAX"}
RPs == {"NONE", "ANY", "ALL"}

Worst(mp) == IF mp = "MIN" THEN Inf ELSE -Inf
Better(mp, a, b) == IF mp = "MIN" THEN a < b ELSE a > b
IsInf(v) == v = Inf \/ v = -Inf

(***************************************************************************)
(* Contract.  A candidate is <<value, tag>>.                               *)
(***************************************************************************)
Best(mp, off) ==
  IF off = {} THEN Worst(mp)
  ELSE IF mp = "MIN" THEN Min({c[1] : c \in off}) ELSE Max({c[1] : c \in off})

BestTags(mp, off) ==
  {c[2] : c \in {d \in off : d[1] = Best(mp, off) /\ d[2] # NoTag}}

AllowedTagSets(mp, rp, off) ==
  CASE rp = "NONE" -> {{}}
    [] rp = "ALL"  -> {BestTags(mp, off)}
    [] rp = "ANY"  -> IF BestTags(mp, off) = {} THEN {{}}
                      ELSE {{t} : t \in BestTags(mp, off)}

Allowed(mp, rp, off) ==
  {[val |-> Best(mp, off), tags |-> T] : T \in AllowedTagSets(mp, rp, off)}

ContractOK(mp, rp, e, off) == e \in Allowed(mp, rp, off)

\* Candidates that an entry hands on when it is iterated or combined.
Retained(e) == {<<e.val, t>> : t \in e.tags}

\* Tags are strings (TLC cannot compare a string with a tuple); the tag of a
\* combined candidate is the pair of the operands' tags, written "t1|t2".
PairTag(t1, t2) == t1 \o "|" \o t2

\* Contract of combine: optimum over all pairs of retained candidates;
\* F(v1, t1, v2, t2) is the value given by the combinator, the tag is the pair.
CombineOffered(e1, e2, F(_, _, _, _)) ==
  {<<F(e1.val, t1, e2.val, t2), PairTag(t1, t2)>> : t1 \in e1.tags, t2 \in e2.tags}

(***************************************************************************)
(* Code-shaped layer.                                                      *)
(***************************************************************************)
Fresh(mp) == [val |-> Worst(mp), tags |-> {}]

ImplStep(mp, rp, e, c) ==
  LET v == c[1]
      t == c[2]
      e1 == IF e.val = v /\ t # NoTag /\ (rp = "ALL" \/ (rp = "ANY" /\ e.tags = {}))
            THEN [e EXCEPT !.tags = @ \cup {t}]
            ELSE e
  IN IF Better(mp, v, e1.val)
     THEN [val |-> v,
           tags |-> IF t # NoTag /\ rp # "NONE" THEN {t}
                    ELSE IF StaleTagsBug THEN e1.tags ELSE {}]
     ELSE e1

ImplBatch(mp, rp, e, cs) == FoldLeft(LAMBDA acc, c : ImplStep(mp, rp, acc, c), e, cs)

\* Entry.combine: a fresh entry updated with the combinator's result for every
\* pair of tags, in the iteration order `order` of the product.
ImplCombine(mp, rp, e1, e2, F(_, _, _, _), order) ==
  ImplBatch(mp, rp, Fresh(mp),
            [i \in DOMAIN order |->
               <<F(e1.val, order[i][1], e2.val, order[i][2]),
                 PairTag(order[i][1], order[i][2])>>])

\* EntryProxy.update: the cell is only materialised by a finite candidate, and
\* an all-infinite batch is dropped.  cell = <<>> stands for "not materialised".
ImplCellUpdate(mp, rp, cell, cs) ==
  IF \A i \in DOMAIN cs : IsInf(cs[i][1]) THEN cell
  ELSE ImplBatch(mp, rp, IF cell = <<>> THEN Fresh(mp) ELSE cell, cs)

ImplCellRead(mp, cell) == IF cell = <<>> THEN Fresh(mp) ELSE cell
=============================================================================
