------------------------------- MODULE Binarize ----------------------------
(***************************************************************************)
(* Resolution of polytomies (utils/trees.py: binarize, arrange_leaves,     *)
(* graft).                                                                 *)
(* Declarative side: Refinements(t) = the binary trees on the leaves of t  *)
(* that keep every clade of t (trees as clade sets, TriplesOps).           *)
(* Code-shaped side: binarize as a state machine, one node of the input    *)
(* tree per action in post-order; a resolved subtree is a nested pair      *)
(* <<left, right>> or a leaf <<u>>; arrange_leaves inserts the children    *)
(* one by one with graft, which may descend everywhere except into the     *)
(* already resolved children (the `ignore` set, identified here by their   *)
(* leaf sets as the code identifies them by topology id).                  *)
(***************************************************************************)
EXTENDS Trees, TriplesOps

CONSTANTS PolyShapes,       \* input trees (parent arrays, every internal node with >= 2 children)
          IgnoreRightBug    \* TRUE: graft forgets the ignore set in its right recursion (self-test mutant)

\* ---- declarative ---------------------------------------------------------
CladesOf(t) == LET I == Info(t) IN {Clade(t, I, u) : u \in Nodes(t)}
Refinements(t) == {B \in AllBinaryTrees(Leaves(t)) : CladesOf(t) \subseteq B}
RECURSIVE DoubleFact(_)
DoubleFact(k) == IF k <= 1 THEN 1 ELSE k * DoubleFact(k - 2)
RefinementCount(t) ==
  FoldLeft(LAMBDA acc, u : acc * DoubleFact(2 * Cardinality(Children(t, u)) - 3), 1, SetToSeq(Internal(t)))

\* ---- code-shaped -----------------------------------------------------------
RECURSIVE LeafSet(_)
LeafSet(b) == IF Len(b) = 1 THEN {b[1]} ELSE LeafSet(b[1]) \cup LeafSet(b[2])
RECURSIVE CladesOfNested(_)
CladesOfNested(b) == IF Len(b) = 1 THEN {{b[1]}}
                     ELSE {LeafSet(b)} \cup CladesOfNested(b[1]) \cup CladesOfNested(b[2])

RECURSIVE Graft(_, _, _, _)
Graft(b, leaf, ignore, useIgnore) ==
  << <<leaf, b>> >> \o
  (IF Len(b) = 2 /\ ~(useIgnore /\ LeafSet(b) \in ignore)
   THEN LET gl == Graft(b[1], leaf, ignore, useIgnore)
            gr == Graft(b[2], leaf, ignore, IF IgnoreRightBug THEN FALSE ELSE useIgnore)
        IN [i \in DOMAIN gl |-> <<gl[i], b[2]>>] \o [i \in DOMAIN gr |-> <<b[1], gr[i]>>]
   ELSE <<>>)

Concat(ss) == FoldLeft(LAMBDA acc, s : acc \o s, <<>>, ss)
RECURSIVE Arrange(_)
Arrange(units) ==
  IF Len(units) = 1 THEN <<units[1]>>
  ELSE LET rest == Tail(units)
           ignore == {LeafSet(rest[i]) : i \in DOMAIN rest}
           subs == Arrange(rest)
       IN Concat([i \in DOMAIN subs |-> Graft(subs[i], Head(units), ignore, TRUE)])

\* cartesian product of a sequence of sequences, as a sequence of sequences
RECURSIVE Product(_)
Product(lists) ==
  IF Len(lists) = 0 THEN << <<>> >>
  ELSE LET rest == Product(Tail(lists))
       IN Concat([i \in DOMAIN lists[1] |-> [j \in DOMAIN rest |-> <<lists[1][i]>> \o rest[j]]])

ResolveNode(t, done, u) ==
  IF IsLeaf(t, u) THEN << <<u>> >>
  ELSE LET ch == ChildSeq(t, u)
           combos == Product([i \in DOMAIN ch |-> done[ch[i]]])
       IN Concat([i \in DOMAIN combos |-> Arrange(combos[i])])

VARIABLES tree, k, done
vars == <<tree, k, done>>

Init == tree \in PolyShapes /\ k = Len(tree) /\ done = <<>>
\* post-order = decreasing pre-order index
Resolve == /\ k >= 1
           /\ done' = (k :> ResolveNode(tree, done, k)) @@ done
           /\ k' = k - 1
           /\ UNCHANGED tree
Spec == Init /\ [][Resolve]_vars

SubtreeShape(t, u) ==   \* the subtree of t rooted at u, re-indexed? not needed: clades are compared directly
  {Clade(t, Info(t), v) : v \in Info(t).desc[u]}
\* every resolved node holds each refinement of its subtree exactly once
NodeInv == \A u \in DOMAIN done :
  LET want == {B \in AllBinaryTrees(Clade(tree, Info(tree), u)) : SubtreeShape(tree, u) \subseteq B}
      got == done[u]
  IN /\ {CladesOfNested(got[i]) : i \in DOMAIN got} = want
     /\ Len(got) = Cardinality(want)
ResultInv == k = 0 =>
  /\ {CladesOfNested(done[1][i]) : i \in DOMAIN done[1]} = Refinements(tree)
  /\ Len(done[1]) = RefinementCount(tree)
  /\ Cardinality(Refinements(tree)) = RefinementCount(tree)

\* ---- expectations for the replay into the code ------------------------------
GenInit == tree \in PolyShapes /\ k = -1 /\ done = <<>>
GenNext == /\ k = -1 /\ k' = -2
           /\ done' = <<Refinements(tree)>>
           /\ UNCHANGED tree
SpecGen == GenInit /\ [][GenNext]_vars
=============================================================================
