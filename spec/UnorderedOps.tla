------------------------------ MODULE UnorderedOps -------------------------
(***************************************************************************)
(* Unordered super-reconciliation / SuperDTL                               *)
(* (compute/unordered_super_reconciliation.py) against the documented      *)
(* model.  An input is [ot, st, lm, c, syn]: syn[u] is the (sorted)        *)
(* sequence of family ids of leaf u, <<>> on internal nodes.  A labelling  *)
(* gives every node a set of families: each family is gained once, at the  *)
(* LCA of the leaves carrying it, and is found below that node only at     *)
(* nodes whose parent has it.                                              *)
(*   L0: explicit enumeration of mappings x labellings                     *)
(*   L1: pairwise Bellman over states <<species, family set>>, every       *)
(*       labelling between the required and the allowed content            *)
(*   L2: the LCA / INHERIT recurrence of _compute_uspfs_entry (values)     *)
(***************************************************************************)
EXTENDS Events

CONSTANTS NoLcaLcaCharge   \* TRUE: an LCA child of an LCA parent is never charged (self-test mutant)

SeqSet(s) == {s[i] : i \in DOMAIN s}

(***************************************************************************)
(* Family bookkeeping on the object tree                                   *)
(***************************************************************************)
FInfo(ot, O, syn) ==
  LET fam == [u \in Nodes(ot) |-> SeqSet(syn[u])]
      used == UNION {fam[u] : u \in Leaves(ot)}
      carriers == [f \in used |-> {w \in Leaves(ot) : f \in fam[w]}]
      gain == [f \in used |-> LcaSet(O, carriers[f])]
  IN [used |-> used, gain |-> gain,
      gains |-> [u \in Nodes(ot) |-> {f \in used : gain[f] = u}],
      allowed |-> [u \in Nodes(ot) |-> {f \in used : gain[f] \in O.anc[u]}],
      req |-> [u \in Nodes(ot) |-> {f \in used : gain[f] \in O.anc[u] /\ \E w \in carriers[f] : u \in O.anc[w]}]]

Edge(c, P, C) == IF P \subseteq C THEN 0 ELSE c.sloss
LabUn(c, kind, P, Cl, Cr) ==
  CASE kind = "S" -> Edge(c, P, Cl) + Edge(c, P, Cr)
    [] kind = "D" -> Min2(Edge(c, P, Cl), Edge(c, P, Cr))
    [] kind = "TL" -> Edge(c, P, Cl)
    [] kind = "TR" -> Edge(c, P, Cr)
    [] OTHER -> 0

\* child label C of node cc under parent label P
Compatible(F, P, cc, C) == C \subseteq (P \cup F.gains[cc])

LocalUn(I, F, c, s, P, l, ql, r, qr) ==
  LET kind == Event(I, s, ql[1], qr[1]) IN
  IF kind = "X" \/ ~Compatible(F, P, l, ql[2]) \/ ~Compatible(F, P, r, qr[2]) THEN Inf
  ELSE Add(NodeCost(I, c, s, ql[1], qr[1]), LabUn(c, kind, P, ql[2], qr[2]))

(***************************************************************************)
(* L1                                                                      *)
(***************************************************************************)
SpeciesFor(I, lca, base, u) == IF base THEN {lca[u]} ELSE 1..I.n
LabelsFor(F, u) == {F.req[u] \cup X : X \in SUBSET (F.allowed[u] \ F.req[u])}
\* the two choices the solver searches
CanonLabelsFor(F, ot, u, P) == {F.req[u], P \cup F.gains[u]}
\* every label a node can get through canonical choices from the root down
RECURSIVE CanonDom(_, _, _)
CanonDom(F, ot, u) == IF u = 1 THEN {F.req[1]}
                      ELSE {F.req[u]} \cup {P \cup F.gains[u] : P \in CanonDom(F, ot, ot[u])}

\* a cell is [v |-> optimum, arg |-> the pairs of child states achieving it]
CellOf(cands) ==
  LET v == SetMin({x[1] : x \in cands})
  IN [v |-> v, arg |-> IF v >= Inf THEN {} ELSE {<<x[2], x[3]>> : x \in {y \in cands : y[1] = v}}]

UnRow(inp, I, F, lca, base, canon, prev, u) ==
  LET ot == inp.ot IN
  IF IsLeaf(ot, u) THEN [q \in {<<inp.lm[u], F.req[u]>>} |-> [v |-> 0, arg |-> {}]]
  ELSE LET l == Left(ot, u)
           r == Right(ot, u)
           fl == {q \in DOMAIN prev[l] : prev[l][q].v < Inf}
           fr == {q \in DOMAIN prev[r] : prev[r][q].v < Inf}
           ok(P, cc, q) == ~canon \/ q[2] \in CanonLabelsFor(F, ot, cc, P)
       IN [q \in SpeciesFor(I, lca, base, u) \X (IF canon THEN CanonDom(F, ot, u) ELSE LabelsFor(F, u)) |->
             CellOf({<<Add3(LocalUn(I, F, inp.c, q[1], q[2], l, ql, r, qr), prev[l][ql].v, prev[r][qr].v), ql, qr>> :
                       ql \in {x \in fl : ok(q[2], l, x)}, qr \in {x \in fr : ok(q[2], r, x)}})]

UnTable(inp, I, F, lca, base, canon) ==
  FoldLeft(LAMBDA acc, u : (u :> UnRow(inp, I, F, lca, base, canon, acc, u)) @@ acc, <<>>, BottomUp(inp.ot))

UnRootMin(T, F) == SetMin({T[1][q].v : q \in {x \in DOMAIN T[1] : x[2] = F.req[1]}})

\* optimal assignments of the subtree of u given state q of u, along the stored argmins
RECURSIVE UnDecode(_, _, _, _)
UnDecode(ot, T, u, q) ==
  IF IsLeaf(ot, u) THEN {(u :> q)}
  ELSE UNION {{(u :> q) @@ al @@ ar : al \in UnDecode(ot, T, Left(ot, u), pr[1]),
                                      ar \in UnDecode(ot, T, Right(ot, u), pr[2])} : pr \in T[u][q].arg}

SortedSeq(S) == SetToSortSeq(S, LAMBDA a, b : a < b)
SolOf(inp, a) == [m |-> [u \in Nodes(inp.ot) |-> a[u][1]],
                  lab |-> [u \in Nodes(inp.ot) |-> SortedSeq(a[u][2])]]

\* number of optional families over the internal nodes (size of the labelling space)
FreeCount(ot, F) == FoldLeft(LAMBDA acc, u : acc + Cardinality(F.allowed[u] \ F.req[u]), 0, SetToSeq(Internal(ot)))

\* minimum over every labelling, minimum and optimal set over the canonical ones.
\* Beyond `limit` optional families the all-labellings table is not built and the
\* canonical minimum stands for it (lemma CanonLemma, model-checked on the bound).
\* (TLC evaluates operator arguments once but re-evaluates LET definitions used
\* under nested quantifiers: the tables are therefore handed down as arguments.)
UnExpM(inp, F, full, TC, mn, mnAll) ==
  [min |-> IF full THEN mnAll ELSE mn, mincanon |-> mn, full |-> full,
   opt |-> IF mn >= Inf THEN {}
           ELSE UNION {{SolOf(inp, a) : a \in UnDecode(inp.ot, TC, 1, q)} :
                         q \in {x \in DOMAIN TC[1] : x[2] = F.req[1] /\ TC[1][x].v = mn}}]
UnExpT(inp, I, F, lca, base, full, TC) ==
  UnExpM(inp, F, full, TC, UnRootMin(TC, F),
         IF full THEN UnRootMin(UnTable(inp, I, F, lca, base, FALSE), F) ELSE 0)
UnExpF(inp, I, base, limit, lca, F) ==
  UnExpT(inp, I, F, lca, base, FreeCount(inp.ot, F) <= limit, UnTable(inp, I, F, lca, base, TRUE))
UnExpected(inp, I, OI, base, limit) ==
  UnExpF(inp, I, base, limit, LcaMap(inp.ot, OI, I, inp.lm), FInfo(inp.ot, OI, inp.syn))

(***************************************************************************)
(* Validity and cost of one given solution                                 *)
(***************************************************************************)
\* the labelling part of validity, on family sets X[u]
LabValidUn(inp, OI, X) ==
  LET ot == inp.ot
      F == FInfo(ot, OI, inp.syn)
  IN /\ \A u \in Leaves(ot) : X[u] = SeqSet(inp.syn[u])
     /\ \A u \in Nodes(ot) : X[u] \subseteq F.allowed[u]                     \* only below the gain node
     /\ \A u \in Nodes(ot) \ {1} : \A f \in X[u] : F.gain[f] # u => f \in X[ot[u]]   \* never below a node lacking it
ValidUn(inp, I, OI, sol) ==
  /\ Valid(inp.ot, I, inp.lm, sol.m)
  /\ LabValidUn(inp, OI, [u \in Nodes(inp.ot) |-> SeqSet(sol.lab[u])])
  /\ \A u \in Nodes(inp.ot) : \A i, j \in DOMAIN sol.lab[u] : i # j => sol.lab[u][i] # sol.lab[u][j]
Canonical(inp, OI, sol) ==
  LET ot == inp.ot
      F == FInfo(ot, OI, inp.syn)
      X == [u \in Nodes(ot) |-> SeqSet(sol.lab[u])]
  IN \A u \in Internal(ot) : X[u] = F.req[u] \/ (u # 1 /\ X[u] = X[ot[u]] \cup F.gains[u])
LabCostUn(inp, I, sol) ==
  LET ot == inp.ot IN
  FoldLeft(LAMBDA acc, u :
             acc + LabUn(inp.c, Event(I, sol.m[u], sol.m[Left(ot, u)], sol.m[Right(ot, u)]),
                         SeqSet(sol.lab[u]), SeqSet(sol.lab[Left(ot, u)]), SeqSet(sol.lab[Right(ot, u)])),
           0, SetToSeq(Internal(ot)))
CostUn(inp, I, sol) == Add(RecCost(inp.ot, I, inp.c, sol.m), LabCostUn(inp, I, sol))

(***************************************************************************)
(* L0: explicit enumeration (smallest bound only)                          *)
(***************************************************************************)
L0Expected(inp, I, OI, base) ==
  LET ot == inp.ot
      F == FInfo(ot, OI, inp.syn)
      lca == LcaMap(ot, OI, I, inp.lm)
      maps == IF base THEN {lca} ELSE ValidMappings(ot, I, inp.lm)
      labs == {lb \in [Nodes(ot) -> SUBSET F.used] : LabValidUn(inp, OI, lb)}
      sols == {[m |-> m, lab |-> [u \in Nodes(ot) |-> SortedSeq(lb[u])]] : m \in maps, lb \in labs}
      ranked == {<<s, CostUn(inp, I, s)>> : s \in {x \in sols : Valid(ot, I, inp.lm, x.m)}}
      canon == {p \in ranked : Canonical(inp, OI, p[1])}
  IN [min |-> MinOf(ranked), mincanon |-> MinOf(canon), opt |-> OptOf(canon)]

(***************************************************************************)
(* L2: the recurrence of _compute_uspfs_entry (values only)                *)
(***************************************************************************)
L2Cell(inp, I, F, prev, u, s) ==
  LET c == inp.c
      ot == inp.ot
      ch == <<Left(ot, u), Right(ot, u)>>
      spch == Children(I.par, s)
      ls == IF spch = {} THEN 0 ELSE s + 1
      rs == IF spch = {} THEN 0 ELSE CHOOSE v \in spch : v # s + 1
      sepS == {x \in 1..I.n : ~IsAnc(I, s, x) /\ ~IsAnc(I, x, s)}
      Cat(i, K) ==
        LET cc == ch[i]
            same == F.req[u] \subseteq F.req[cc]
            ll == IF K = "INH" THEN c.sloss ELSE IF same \/ NoLcaLcaCharge THEN 0 ELSE c.sloss
            li == IF K = "INH" THEN 0 ELSE IF same THEN Inf ELSE 0
            sub(x, k2) == prev[cc][x][k2]
            inS == I.desc[s]
            above(x) == c.floss * I.dist[s][x]
            side(root) == IF root = 0 THEN Inf ELSE
                          SetMin({Add3(above(x) - c.floss, sub(x, "LCA"), ll) : x \in I.desc[root]}
                                 \cup {Add3(above(x) - c.floss, sub(x, "INH"), li) : x \in I.desc[root]})
        IN [cons |-> SetMin({Add3(above(x), sub(x, "LCA"), ll) : x \in inS}
                            \cup {Add3(above(x), sub(x, "INH"), li) : x \in inS}),
            segm |-> SetMin({Add(above(x), sub(x, "LCA")) : x \in inS}
                            \cup {Add3(above(x), sub(x, "INH"), li) : x \in inS}),
            sepa |-> SetMin({sub(x, "LCA") : x \in sepS} \cup {Add(sub(x, "INH"), li) : x \in sepS}),
            left |-> side(ls), right |-> side(rs)]
      Val(K) == LET a == Cat(1, K)
                    b == Cat(2, K)
                IN SetMin({Add3(c.spe, a.left, b.right), Add3(c.spe, a.right, b.left),
                           Add3(c.dup, a.cons, b.segm), Add3(c.dup, a.segm, b.cons),
                           Add3(c.hgt, a.cons, b.sepa), Add3(c.hgt, a.sepa, b.cons)})
  IN [LCA |-> Val("LCA"), INH |-> Val("INH")]

L2Row(inp, I, F, lca, base, prev, u) ==
  IF IsLeaf(inp.ot, u)
  THEN [s \in 1..I.n |-> IF s = inp.lm[u] THEN [LCA |-> 0, INH |-> Inf] ELSE [LCA |-> Inf, INH |-> Inf]]
  ELSE [s \in 1..I.n |-> IF s \in SpeciesFor(I, lca, base, u) THEN L2Cell(inp, I, F, prev, u, s)
                         ELSE [LCA |-> Inf, INH |-> Inf]]

=============================================================================
