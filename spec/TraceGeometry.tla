---------------------------- MODULE TraceGeometry --------------------------
(***************************************************************************)
(* Trace validation of computed layouts against the geometric contract     *)
(* (C14).                                                                  *)
(*  {"op":"layout","st":[parents],"finite":bool,"species":[{"sp","rect",    *)
(*    "trunk","anchors":[[gene,x,y],..],"branches":[{"gene","kind","left",  *)
(*    "right","fsp","rect","ap","al","ar","ac"},..]},..]}                    *)
(*  {"op":"mirror","h":layout,"v":layout}   v computed with width and height *)
(*                                          of every node exchanged          *)
(*  {"op":"again","a":layout,"b":layout}    two computations                 *)
(***************************************************************************)
EXTENDS Geometry, Json, IOUtils, TLCExt

Log == ndJsonDeserialize(IOEnv.TRACE_FILE)
VARIABLES l
vars == <<l>>

SeqToSet(s) == {s[i] : i \in DOMAIN s}
Sp(lay, x) == lay.species[x]          \* species are listed in pre-order: index = species number
Children(st, u) == {v \in DOMAIN st : st[v] = u}
AnchorGenes(s) == {s.anchors[i][1] : i \in DOMAIN s.anchors}
BranchGenes(s) == {s.branches[i].gene : i \in DOMAIN s.branches}
LeftChild(st, u) == u + 1
RightChild(st, u) == CHOOSE v \in Children(st, u) : v # u + 1

LayoutClauses(e) ==
  IF ~e.finite THEN {"ClauseFinite"} ELSE
  LET st == e.st
      N == DOMAIN st
      inner == {u \in N : Children(st, u) # {}}
      refsOK(u) ==
        LET s == Sp(e, u)
            isInner == u \in inner
        IN \A i \in DOMAIN s.branches :
          LET b == s.branches[i] IN
          CASE b.kind = "S" -> /\ isInner
                               /\ b.left \in AnchorGenes(Sp(e, LeftChild(st, u)))
                               /\ b.right \in AnchorGenes(Sp(e, RightChild(st, u)))
            [] b.kind = "X" -> /\ isInner
                               /\ IF b.right = 0 THEN b.left \in AnchorGenes(Sp(e, LeftChild(st, u)))
                                  ELSE b.left = 0 /\ b.right \in AnchorGenes(Sp(e, RightChild(st, u)))
            [] b.kind = "D" -> b.left \in BranchGenes(s) /\ b.right \in BranchGenes(s)
            [] b.kind = "T" -> b.left \in BranchGenes(s) /\ b.fsp \in N /\ b.right \in AnchorGenes(Sp(e, b.fsp))
            [] OTHER -> TRUE
  IN (IF \E u \in inner : ~DisjointT(Sp(e, LeftChild(st, u)).rect, Sp(e, RightChild(st, u)).rect, e.tol)
      THEN {"ClauseSiblingBoxesDisjoint"} ELSE {})
     \cup (IF \E u \in N : st[u] # 0 /\ ~InsideT(Sp(e, u).rect, Sp(e, st[u]).rect, e.tol) THEN {"ClauseBoxInsideParent"} ELSE {})
     \cup (IF \E u, v \in N : u < v /\ ~DisjointT(Sp(e, u).trunk, Sp(e, v).trunk, e.tol) THEN {"ClauseTrunksDisjoint"} ELSE {})
     \cup (IF \E u \in N : ~refsOK(u) THEN {"ClauseAnchorsExist"} ELSE {})

TSpecies(s) == [sp |-> s.sp, rect |-> TransposeRect(s.rect), trunk |-> TransposeRect(s.trunk), fork |-> s.fork,
                anchors |-> {<<s.anchors[i][1], s.anchors[i][3], s.anchors[i][2]>> : i \in DOMAIN s.anchors},
                branches |-> {[gene |-> b.gene, kind |-> b.kind, left |-> b.left, right |-> b.right,
                               rect |-> TransposeRect(b.rect), ap |-> TransposePoint(b.ap), al |-> TransposePoint(b.al),
                               ar |-> TransposePoint(b.ar), ac |-> TransposePoint(b.ac)] : b \in SeqToSet(s.branches)}]
PSpecies(s) == [sp |-> s.sp, rect |-> s.rect, trunk |-> s.trunk, fork |-> s.fork,
                anchors |-> {<<s.anchors[i][1], s.anchors[i][2], s.anchors[i][3]>> : i \in DOMAIN s.anchors},
                branches |-> {[gene |-> b.gene, kind |-> b.kind, left |-> b.left, right |-> b.right, rect |-> b.rect,
                               ap |-> b.ap, al |-> b.al, ar |-> b.ar, ac |-> b.ac] : b \in SeqToSet(s.branches)}]
\* mirror relation up to a tolerance: p from the horizontal layout, q from the vertical one
CloseSpecies(p, q, t) ==
  /\ p.sp = q.sp
  /\ CloseTuple(p.rect, TransposeRect(q.rect), t) /\ CloseTuple(p.trunk, TransposeRect(q.trunk), t)
  /\ Abs(p.fork - q.fork) <= t
  /\ Len(p.anchors) = Len(q.anchors)
  /\ \A i \in DOMAIN p.anchors : \E j \in DOMAIN q.anchors :
        /\ q.anchors[j][1] = p.anchors[i][1]
        /\ Abs(q.anchors[j][3] - p.anchors[i][2]) <= t /\ Abs(q.anchors[j][2] - p.anchors[i][3]) <= t
  /\ Len(p.branches) = Len(q.branches)
  /\ \A i \in DOMAIN p.branches : \E j \in DOMAIN q.branches :
        LET a == p.branches[i]
            b == q.branches[j]
        IN /\ a.gene = b.gene /\ a.kind = b.kind /\ a.left = b.left /\ a.right = b.right
           /\ CloseTuple(a.rect, TransposeRect(b.rect), t)
           /\ CloseTuple(a.ap, TransposePoint(b.ap), t) /\ CloseTuple(a.al, TransposePoint(b.al), t)
           /\ CloseTuple(a.ar, TransposePoint(b.ar), t) /\ CloseTuple(a.ac, TransposePoint(b.ac), t)
MirrorClauses(e) ==
  IF ~(e.h.finite /\ e.v.finite) THEN {"ClauseFinite"}
  ELSE IF Len(e.h.species) # Len(e.v.species) THEN {"ClauseMirror"}
  ELSE IF e.tol = 0
       THEN (IF \E x \in DOMAIN e.h.species : PSpecies(e.h.species[x]) # TSpecies(e.v.species[x])
             THEN {"ClauseMirror"} ELSE {})
       ELSE (IF \E x \in DOMAIN e.h.species : ~CloseSpecies(e.h.species[x], e.v.species[x], e.tol)
             THEN {"ClauseMirror"} ELSE {})
AgainClauses(e) == IF e.a # e.b THEN {"ClauseDeterministic"} ELSE {}

Clauses(e) == CASE e.op = "layout" -> LayoutClauses(e)
                [] e.op = "mirror" -> MirrorClauses(e)
                [] e.op = "again" -> AgainClauses(e)
                [] OTHER -> {"ClauseUnknownOp"}
Judge(e) ==
  LET bad == Clauses(e) IN
  IF bad = {} THEN TRUE
  ELSE PrintT(<<"VERDICT", e.n, bad>>) /\ TLCSet(1, TLCGet(1) + 1)

Init == l = 1 /\ TLCSet(1, 0)
Next == l <= Len(Log) /\ Judge(Log[l]) /\ l' = l + 1
Spec == Init /\ [][Next]_vars
Consumed ==
  /\ PrintT(<<"SUMMARY", TLCGet("stats").diameter - 1, Len(Log), TLCGet(1)>>)
  /\ TLCGet("stats").diameter - 1 = Len(Log)
=============================================================================
