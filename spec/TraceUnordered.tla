----------------------------- MODULE TraceUnordered ------------------------
(***************************************************************************)
(* Trace validation of the unordered super-reconciliation (SuperDTL) solvers and of the *)
(* cost evaluator on unordered solutions.  One NDJSON event per call:        *)
(*  {"op":"solve","algo":"ext"|"base","policy":"ALL"|"ANY",                *)
(*   "in":{"ot","st","lm","c","syn"},"exc":"",                       *)
(*   "sols":[{"m":[..],"lab":[[..],..]},..],"costs":[..],"rcosts":[..],     *)
(*   "lcosts":[..]}                                                         *)
(*  {"op":"eval","in":{..},"sol":{"m","lab"},"events":["S","D","TL",..],    *)
(*   "cost":c,"rcost":r,"lcost":l}                                          *)
(* The oracle is the pairwise Bellman layer L1 of UnorderedOps (equated with *)
(* explicit enumeration by TLC on the bounded domain).  The expectation of *)
(* an input is computed once and kept in `memo` while the following events *)
(* concern the same input.                                                 *)
(***************************************************************************)
EXTENDS UnorderedOps, Json, IOUtils, TLCExt

Log == ndJsonDeserialize(IOEnv.TRACE_FILE)

VARIABLES l, memo
vars == <<l, memo>>

NoMemo == [key |-> <<>>, val |-> <<>>]
KeyOf(e) == IF e.op = "solve" THEN <<e.in, e.algo>> ELSE <<>>
Memo(old, e) ==
  IF e.op # "solve" \/ e.exc # "" THEN old
  ELSE IF old.key = KeyOf(e) THEN old
  ELSE [key |-> KeyOf(e),
        val |-> UnExpected(e.in, Info(e.in.st), Info(e.in.ot), e.algo = "base")]

TotalSol(inp, n, sol) ==
  /\ Len(sol.m) = Len(inp.ot) /\ Len(sol.lab) = Len(inp.ot)
  /\ \A u \in Nodes(inp.ot) : sol.m[u] \in 1..n

SolveClauses(e, exp) ==
  IF e.exc # "" THEN {"ClauseNoFailure"} ELSE
  LET inp == e.in
      I == Info(inp.st)
      OI == Info(inp.ot)
      sols == e.sols
      solset == {sols[i] : i \in DOMAIN sols}
  IN IF \E i \in DOMAIN sols : ~TotalSol(inp, I.n, sols[i]) THEN {"ClauseTotalMapping"} ELSE
     (IF \E s \in solset : ~ValidUn(inp, I, OI, s) THEN {"ClauseValid"} ELSE {})
     \cup (IF \E i \in DOMAIN sols : ValidUn(inp, I, OI, sols[i]) /\
               (CostUn(inp, I, sols[i]) # e.costs[i] \/ RecCost(inp.ot, I, inp.c, sols[i].m) # e.rcosts[i]
                \/ LabCostUn(inp, I, sols[i]) # e.lcosts[i])
           THEN {"ClauseCostRecount"} ELSE {})
     \cup (IF \E i \in DOMAIN sols : e.costs[i] >= Inf THEN {"ClauseFiniteCost"} ELSE {})
     \cup (IF \E i \in DOMAIN sols : e.costs[i] # exp.min THEN {"ClauseMin"} ELSE {})
     \cup (IF \E i, j \in DOMAIN sols : e.costs[i] # e.costs[j] THEN {"ClauseSameCost"} ELSE {})
     \cup (IF (Len(sols) = 0) # (exp.opt = {}) THEN {"ClauseEmptyIffNoSolution"} ELSE {})
     \cup (IF \E s \in solset : ValidUn(inp, I, OI, s) /\ ~Canonical(inp, OI, s) THEN {"ClauseCanonical"} ELSE {})
     \cup (IF exp.min # exp.mincanon THEN {"ClauseCanonLemma"} ELSE {})
     \cup (IF e.policy = "ALL" /\ solset # exp.opt THEN {"ClauseAllEqualsOpt"} ELSE {})
     \cup (IF e.policy = "ALL" /\ Len(sols) # Cardinality(solset) THEN {"ClauseAllDistinct"} ELSE {})
     \cup (IF e.policy = "ANY" /\ exp.opt # {} /\ ~(Len(sols) = 1 /\ solset \subseteq exp.opt)
           THEN {"ClauseAnyMember"} ELSE {})

EvalClauses(e) ==
  LET inp == e.in
      I == Info(inp.st)
      OI == Info(inp.ot)
      ot == inp.ot
      sol == e.sol
      ev(u) == EventAt(ot, I, sol.m, u)
  IN (IF \E u \in Nodes(ot) : e.events[u] # ev(u) THEN {"ClauseNodeEvent"} ELSE {})
     \cup (IF e.rcost # RecCost(ot, I, inp.c, sol.m) THEN {"ClauseReconciliationCost"} ELSE {})
     \cup (IF ValidUn(inp, I, OI, sol) /\ e.lcost # LabCostUn(inp, I, sol) THEN {"ClauseLabelingCost"} ELSE {})
     \cup (IF ValidUn(inp, I, OI, sol) /\ e.cost # CostUn(inp, I, sol) THEN {"ClauseTotalCost"} ELSE {})

Clauses(e, m) == IF e.op = "solve" THEN SolveClauses(e, m.val)
                 ELSE IF e.op = "eval" THEN EvalClauses(e) ELSE {"ClauseUnknownOp"}

Judge(e, m) ==
  LET bad == Clauses(e, m) IN
  IF bad = {} THEN TRUE
  ELSE PrintT(<<"VERDICT", e.n, bad>>) /\ TLCSet(1, TLCGet(1) + 1)

Init == l = 1 /\ memo = NoMemo /\ TLCSet(1, 0)
Next == /\ l <= Len(Log)
        /\ memo' = Memo(memo, Log[l])
        /\ Judge(Log[l], memo')
        /\ l' = l + 1
Spec == Init /\ [][Next]_vars

Consumed ==
  /\ PrintT(<<"SUMMARY", TLCGet("stats").diameter - 1, Len(Log), TLCGet(1)>>)
  /\ TLCGet("stats").diameter - 1 = Len(Log)
=============================================================================
