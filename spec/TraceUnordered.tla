----------------------------- MODULE TraceUnordered ------------------------
(***************************************************************************)
(* Trace validation of the unordered super-reconciliation (SuperDTL) solvers and of the *)
(* cost evaluator on unordered solutions.  One NDJSON event per call:        *)
(*  {"op":"solve","algo":"ext"|"base","policy":"ALL"|"ANY",                *)
(*   "in":{"ot","st","lm","c","syn"},"exc":"",                       *)
(*   "sols":[{"m":[..],"lab":[[..],..]},..],"costs":[..],"rcosts":[..],     *)
(*   "lcosts":[..]}                                                         *)
(*  {"op":"eval","in":{..},"sol":{"m","lab"},"events":["S","D","TL",..],    *)
(*   "cost":c,"rcost":r,"lcost":l}                                          *)
(* The oracle is the pairwise Bellman layer L1 of UnorderedOps (equated with *)
(* explicit enumeration by TLC on the bounded domain).  The expectation of *)
(* an input is computed once (tables indexed by the first event about it). *)
(***************************************************************************)
EXTENDS UnorderedOps, Json, IOUtils, TLCExt

Log == ndJsonDeserialize(IOEnv.TRACE_FILE)

\* all-labellings oracle up to this many optional families, canonical oracle beyond
FullLimit == 3

(***************************************************************************)
(* TLC re-evaluates operator arguments and LET definitions that sit under  *)
(* operator parameters at every use; everything expensive is therefore     *)
(* materialised once, at constant level, in tables indexed by the event    *)
(* number, and handed to the operators as cheap look-ups.                  *)
(***************************************************************************)
KeyOf(i) == IF Log[i].op = "solve" THEN <<Log[i].in, Log[i].algo>> ELSE <<i>>
RECURSIVE FirstOf(_)
FirstOf(i) == IF i > 1 /\ KeyOf(i - 1) = KeyOf(i) THEN FirstOf(i - 1) ELSE i
IsFirst(i) == Log[i].op = "solve" /\ Log[i].exc = "" /\ FirstOf(i) = i
EvI == [i \in DOMAIN Log |-> Info(Log[i].in.st)]
EvOI == [i \in DOMAIN Log |-> Info(Log[i].in.ot)]
EvF == [i \in DOMAIN Log |-> FInfo(Log[i].in.ot, EvOI[i], Log[i].in.syn)]
EvLca == [i \in DOMAIN Log |-> LcaMap(Log[i].in.ot, EvOI[i], EvI[i], Log[i].in.lm)]
EvBase(i) == Log[i].algo = "base"
EvTC == [i \in DOMAIN Log |-> IF IsFirst(i) THEN UnTable(Log[i].in, EvI[i], EvF[i], EvLca[i], EvBase(i), TRUE) ELSE <<>>]
EvFull(i) == FreeCount(Log[i].in.ot, EvF[i]) <= FullLimit
EvMinAll == [i \in DOMAIN Log |-> IF IsFirst(i) /\ EvFull(i)
                                   THEN UnRootMin(UnTable(Log[i].in, EvI[i], EvF[i], EvLca[i], EvBase(i), FALSE), EvF[i])
                                   ELSE 0]
EvMin == [i \in DOMAIN Log |-> IF IsFirst(i) THEN UnRootMin(EvTC[i], EvF[i]) ELSE 0]
EvExp == [i \in DOMAIN Log |-> IF IsFirst(i) THEN UnExpM(Log[i].in, EvF[i], EvFull(i), EvTC[i], EvMin[i], EvMinAll[i]) ELSE <<>>]
ExpAt(i) == EvExp[FirstOf(i)]

VARIABLES l
vars == <<l>>

TotalSol(inp, n, sol) ==
  /\ Len(sol.m) = Len(inp.ot) /\ Len(sol.lab) = Len(inp.ot)
  /\ \A u \in Nodes(inp.ot) : sol.m[u] \in 1..n

SolveClauses(e, exp) ==
  IF e.exc # "" THEN {"ClauseNoFailure"} ELSE
  LET inp == e.in
      I == Info(inp.st)
      OI == Info(inp.ot)
      sols == e.sols
      solset == {sols[i] : i \in DOMAIN sols}
  IN IF \E i \in DOMAIN sols : ~TotalSol(inp, I.n, sols[i]) THEN {"ClauseTotalMapping"} ELSE
     (IF \E s \in solset : ~ValidUn(inp, I, OI, s) THEN {"ClauseValid"} ELSE {})
     \cup (IF \E i \in DOMAIN sols : ValidUn(inp, I, OI, sols[i]) /\
               (CostUn(inp, I, sols[i]) # e.costs[i] \/ RecCost(inp.ot, I, inp.c, sols[i].m) # e.rcosts[i]
                \/ LabCostUn(inp, I, sols[i]) # e.lcosts[i])
           THEN {"ClauseCostRecount"} ELSE {})
     \cup (IF \E i \in DOMAIN sols : e.costs[i] >= Inf THEN {"ClauseFiniteCost"} ELSE {})
     \cup (IF \E i \in DOMAIN sols : e.costs[i] # exp.min \/ (ValidUn(inp, I, OI, sols[i]) /\ CostUn(inp, I, sols[i]) # exp.min)
           THEN {"ClauseMin"} ELSE {})
     \cup (IF \E i, j \in DOMAIN sols : e.costs[i] # e.costs[j] THEN {"ClauseSameCost"} ELSE {})
     \cup (IF (Len(sols) = 0) # (exp.opt = {}) THEN {"ClauseEmptyIffNoSolution"} ELSE {})
     \cup (IF \E s \in solset : ValidUn(inp, I, OI, s) /\ ~Canonical(inp, OI, s) THEN {"ClauseCanonical"} ELSE {})
     \cup (IF exp.min # exp.mincanon THEN {"ClauseCanonLemma"} ELSE {})
     \cup (IF e.policy = "ALL" /\ solset # exp.opt THEN {"ClauseAllEqualsOpt"} ELSE {})
     \cup (IF e.policy = "ALL" /\ Len(sols) # Cardinality(solset) THEN {"ClauseAllDistinct"} ELSE {})
     \cup (IF e.policy = "ANY" /\ exp.opt # {} /\ ~(Len(sols) = 1 /\ solset \subseteq exp.opt)
           THEN {"ClauseAnyMember"} ELSE {})

EvalClauses(e) ==
  LET inp == e.in
      I == Info(inp.st)
      OI == Info(inp.ot)
      ot == inp.ot
      sol == e.sol
      ev(u) == EventAt(ot, I, sol.m, u)
  IN (IF \E u \in Nodes(ot) : e.events[u] # ev(u) THEN {"ClauseNodeEvent"} ELSE {})
     \cup (IF e.rcost # RecCost(ot, I, inp.c, sol.m) THEN {"ClauseReconciliationCost"} ELSE {})
     \cup (IF ValidUn(inp, I, OI, sol) /\ e.lcost # LabCostUn(inp, I, sol) THEN {"ClauseLabelingCost"} ELSE {})
     \cup (IF ValidUn(inp, I, OI, sol) /\ e.cost # CostUn(inp, I, sol) THEN {"ClauseTotalCost"} ELSE {})


(***************************************************************************)
(* Inputs with polytomies: {"op":"poly","refs":[binary inputs, one per pair *)
(* of refinements],"sols":[{"ot","st","lm","syn","m","lab"}],"costs":[..]}  *)
(* Every solution must be a valid solution of one of the listed refined    *)
(* inputs, and its cost the minimum over all of them.                      *)
(***************************************************************************)
SolIn(e, s) == [ot |-> s.ot, st |-> s.st, lm |-> s.lm, c |-> e.in.c, syn |-> s.syn, root |-> e.in.root]
SolOf2(s) == [m |-> s.m, lab |-> s.lab]
\* (constant-level tables per event and refinement pair, see the note above)
EvRefs == [i \in DOMAIN Log |-> IF Log[i].op = "poly" /\ Log[i].exc = "" THEN Log[i].refs ELSE <<>>]
EvRI == [i \in DOMAIN Log |-> [r \in DOMAIN EvRefs[i] |-> Info(EvRefs[i][r].st)]]
EvROI == [i \in DOMAIN Log |-> [r \in DOMAIN EvRefs[i] |-> Info(EvRefs[i][r].ot)]]
EvRLca == [i \in DOMAIN Log |-> [r \in DOMAIN EvRefs[i] |->
             LcaMap(EvRefs[i][r].ot, EvROI[i][r], EvRI[i][r], EvRefs[i][r].lm)]]
EvRF == [i \in DOMAIN Log |-> [r \in DOMAIN EvRefs[i] |-> FInfo(EvRefs[i][r].ot, EvROI[i][r], EvRefs[i][r].syn)]]
EvRTab == [i \in DOMAIN Log |-> [r \in DOMAIN EvRefs[i] |->
             UnTable(EvRefs[i][r], EvRI[i][r], EvRF[i][r], EvRLca[i][r], FALSE, TRUE)]]
EvRefMin == [i \in DOMAIN Log |-> SetMin({UnRootMin(EvRTab[i][r], EvRF[i][r]) : r \in DOMAIN EvRefs[i]})]
PolyClauses(e, i) ==
  IF e.exc # "" THEN {"ClauseNoFailure"} ELSE
  LET sols == e.sols
      refset == {e.refs[r] : r \in DOMAIN e.refs}
  IN (IF \E x \in DOMAIN sols : SolIn(e, sols[x]) \notin refset THEN {"ClauseRefinement"} ELSE {})
     \cup (IF \E x \in DOMAIN sols : LET s == sols[x] IN ~ValidUn(SolIn(e, s), Info(s.st), Info(s.ot), SolOf2(s)) THEN {"ClauseValid"} ELSE {})
     \cup (IF \E x \in DOMAIN sols : LET s == sols[x] IN ValidUn(SolIn(e, s), Info(s.st), Info(s.ot), SolOf2(s)) /\ CostUn(SolIn(e, s), Info(s.st), SolOf2(s)) # e.costs[x]
           THEN {"ClauseCostRecount"} ELSE {})
     \cup (IF \E x \in DOMAIN sols : e.costs[x] # EvRefMin[i] THEN {"ClauseMinPoly"} ELSE {})
     \cup (IF (Len(sols) = 0) # (EvRefMin[i] >= Inf) THEN {"ClauseEmptyIffNoSolution"} ELSE {})
     \cup (IF e.notes # <<>> THEN {"ClauseRefinementKeepsNamesAndClades"} ELSE {})

Clauses(i) == IF Log[i].op = "poly" THEN PolyClauses(Log[i], i) ELSE IF Log[i].op = "solve" THEN SolveClauses(Log[i], IF Log[i].exc = "" THEN ExpAt(i) ELSE <<>>)
              ELSE IF Log[i].op = "eval" THEN EvalClauses(Log[i]) ELSE {"ClauseUnknownOp"}

Judge(e, i) ==
  LET bad == Clauses(i) IN
  IF bad = {} THEN TRUE
  ELSE PrintT(<<"VERDICT", e.n, bad>>) /\ TLCSet(1, TLCGet(1) + 1)

Init == l = 1 /\ TLCSet(1, 0)
Next == /\ l <= Len(Log)
        /\ Judge(Log[l], l)
        /\ l' = l + 1
Spec == Init /\ [][Next]_vars

Consumed ==
  /\ PrintT(<<"SUMMARY", TLCGet("stats").diameter - 1, Len(Log), TLCGet(1)>>)
  /\ TLCGet("stats").diameter - 1 = Len(Log)
=============================================================================
