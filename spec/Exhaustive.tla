------------------------------ MODULE Exhaustive ----------------------------
(***************************************************************************)
(* The exhaustive enumerator (compute/exhaustive.py: generate_all) in the  *)
(* shape of the code: for every pair of sub-reconciliations of the two     *)
(* children, the parent is placed (1) at the LCA of the children's species *)
(* and at every ancestor of it, (2) for each child that is not below the   *)
(* other, on the chain from that child's species up to (not including) the *)
(* LCA.  The result is a sequence (bag).  TLC checks that this bag is the  *)
(* set of valid reconciliations of the event model, each exactly once.     *)
(***************************************************************************)
EXTENDS Events

CONSTANTS Inputs, SpShapes,
          StopEarly      \* TRUE: the transfer chain stops one step early (self-test mutant)

SpInfo == [st \in SpShapes |-> Info(st)]

\* s, parent(s), ... , root   as a sequence
RECURSIVE UpChain(_, _)
UpChain(I, s) == IF s = 0 THEN <<>> ELSE <<s>> \o UpChain(I, I.par[s])
\* s, parent(s), ... up to but excluding `top`
RECURSIVE ChainBelow(_, _, _)
ChainBelow(I, s, top) == IF s = top \/ s = 0 THEN <<>> ELSE <<s>> \o ChainBelow(I, I.par[s], top)

ParentPlaces(I, sl, sr) ==
  LET lca == I.lca[sl][sr]
      tr(target, other) == IF IsAnc(I, other, target) THEN <<>>
                           ELSE LET ch == ChainBelow(I, target, lca)
                                IN IF StopEarly /\ Len(ch) > 0 THEN SubSeq(ch, 1, Len(ch) - 1) ELSE ch
  IN UpChain(I, lca) \o tr(sl, sr) \o tr(sr, sl)

Concat(ss) == FoldLeft(LAMBDA acc, s : acc \o s, <<>>, ss)
RECURSIVE GenAll(_, _, _, _)
GenAll(ot, I, lm, u) ==
  IF IsLeaf(ot, u) THEN << (u :> lm[u]) >>
  ELSE LET l == Left(ot, u)
           r == Right(ot, u)
           ls == GenAll(ot, I, lm, l)
           rs == GenAll(ot, I, lm, r)
       IN Concat([i \in DOMAIN ls |-> Concat([j \in DOMAIN rs |->
            LET places == ParentPlaces(I, ls[i][l], rs[j][r])
            IN [k \in DOMAIN places |-> (u :> places[k]) @@ ls[i] @@ rs[j]]])])

VARIABLES input, out, done
vars == <<input, out, done>>
Init == input \in Inputs /\ out = <<>> /\ done = FALSE
Run == /\ ~done /\ done' = TRUE
       /\ out' = GenAll(input.ot, SpInfo[input.st], input.lm, 1)
       /\ UNCHANGED input
Spec == Init /\ [][Run]_vars

AsSeq(ot, m) == [u \in Nodes(ot) |-> m[u]]
ExactInv == done =>
  LET valid == ValidMappings(input.ot, SpInfo[input.st], input.lm)
  IN /\ {AsSeq(input.ot, out[i]) : i \in DOMAIN out} = valid
     /\ Len(out) = Cardinality(valid)
=============================================================================
