------------------------------ MODULE TraceDTL -----------------------------
(***************************************************************************)
(* Trace validation for the plain reconciliation solvers.  One NDJSON      *)
(* event per call of the real code:                                        *)
(*  {"n":i,"op":"thl"|"exh"|"lca","policy":"ALL"|"ANY"|"-",                *)
(*   "in":{"ot":[..],"st":[..],"lm":[..],"c":{spe,dup,hgt,floss,sloss}},   *)
(*   "exc":"" | "<exception>", "sols":[[m1..mN],..], "costs":[..]}         *)
(* The oracle is the pairwise Bellman layer L1 of Events.tla (TLC has      *)
(* equated it with explicit enumeration L0 on the bounded domain).         *)
(***************************************************************************)
EXTENDS Events, Json, IOUtils, TLCExt

Log == ndJsonDeserialize(IOEnv.TRACE_FILE)

VARIABLES l
vars == <<l>>

Clauses(e) ==
  IF e.exc # "" THEN {"ClauseNoFailure"} ELSE
  LET ot == e.in.ot
      I == Info(e.in.st)
      OI == Info(ot)
      lm == e.in.lm
      c == e.in.c
      sols == e.sols
      solset == ToSet(sols)
      T == L1Table(ot, I, lm, c)
      mn == L1Min(ot, I, T)
      opt == L1Opt(ot, I, c, T)
      total == \A i \in DOMAIN sols : Len(sols[i]) = Len(ot) /\ \A u \in Nodes(ot) : sols[i][u] \in 1..I.n
  IN IF ~total THEN {"ClauseTotalMapping"} ELSE
     (IF \E m \in solset : ~Valid(ot, I, lm, m) THEN {"ClauseValid"} ELSE {})
     \cup (IF \E i \in DOMAIN sols : RecCost(ot, I, c, sols[i]) # e.costs[i] THEN {"ClauseCostRecount"} ELSE {})
     \cup (IF \E i \in DOMAIN sols : e.costs[i] >= Inf THEN {"ClauseFiniteCost"} ELSE {})
     \cup (IF e.op \in {"thl", "exh"} /\ \E i \in DOMAIN sols : e.costs[i] # mn \/ RecCost(ot, I, c, sols[i]) # mn
           THEN {"ClauseMin"} ELSE {})
     \cup (IF e.op \in {"thl", "exh"} /\ e.policy = "ALL" /\ solset # opt THEN {"ClauseAllEqualsOpt"} ELSE {})
     \cup (IF e.op \in {"thl", "exh"} /\ e.policy = "ALL" /\ Len(sols) # Cardinality(solset) THEN {"ClauseAllDistinct"} ELSE {})
     \cup (IF e.op \in {"thl", "exh"} /\ e.policy = "ANY" /\ ~(Len(sols) = 1 /\ solset \subseteq opt)
              /\ ~(opt = {} /\ Len(sols) = 0) THEN {"ClauseAnyMember"} ELSE {})
     \cup (IF e.op = "lca" /\ ~(Len(sols) = 1 /\ sols[1] = LcaMap(ot, OI, I, lm)) THEN {"ClauseLcaMap"} ELSE {})
     \cup (IF e.op = "lca" /\ c.hgt >= Inf /\ c.spe = 0 /\ Len(sols) = 1 /\ e.costs[1] # mn THEN {"ClauseLcaOptimal"} ELSE {})
     \cup (IF e.op = "lca" /\ c.hgt >= Inf /\ c.spe = 0 /\ c.floss > 0 /\ opt # solset THEN {"ClauseLcaUnique"} ELSE {})

Judge(e) ==
  LET bad == Clauses(e) IN
  IF bad = {} THEN TRUE
  ELSE PrintT(<<"VERDICT", e.n, bad>>) /\ TLCSet(1, TLCGet(1) + 1)

Init == l = 1 /\ TLCSet(1, 0)
Next == l <= Len(Log) /\ Judge(Log[l]) /\ l' = l + 1
Spec == Init /\ [][Next]_vars

Consumed ==
  /\ PrintT(<<"SUMMARY", TLCGet("stats").diameter - 1, Len(Log), TLCGet(1)>>)
  /\ TLCGet("stats").diameter - 1 = Len(Log)
=============================================================================
