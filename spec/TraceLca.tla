------------------------------ MODULE TraceLca -----------------------------
(***************************************************************************)
(* Trace validation for LowestCommonAncestor and RangeMinQuery.            *)
(*  {"op":"tree","par":[0,1,1,..]}            sets the current tree         *)
(*  {"op":"lca","nodes":[..],"out":u}                                       *)
(*  {"op":"anc"|"sanc"|"cmp","a":u,"b":v,"out":true|false}                  *)
(*  {"op":"level","a":u,"out":k}   {"op":"dist","a":u,"b":v,"out":k}        *)
(*  {"op":"rmq","arr":[..],"s":i,"e":j,"out":[v,idx] | []}                 *)
(* Every answer is judged by the definitions on parent chains (RmqOps).    *)
(***************************************************************************)
EXTENDS RmqOps, Json, IOUtils, TLCExt

Log == ndJsonDeserialize(IOEnv.TRACE_FILE)

VARIABLES l, tree
vars == <<l, tree>>

Clauses(e) ==
  CASE e.op = "tree" -> {}
    [] e.op = "lca" -> IF e.out # LcaDef(tree, ToSet(e.nodes)) THEN {"ClauseLca"} ELSE {}
    [] e.op = "anc" -> IF e.out # IsAncDef(tree, e.a, e.b) THEN {"ClauseAncestor"} ELSE {}
    [] e.op = "sanc" -> IF e.out # (IsAncDef(tree, e.a, e.b) /\ e.a # e.b) THEN {"ClauseStrictAncestor"} ELSE {}
    [] e.op = "cmp" -> IF e.out # (IsAncDef(tree, e.a, e.b) \/ IsAncDef(tree, e.b, e.a))
                       THEN {"ClauseComparable"} ELSE {}
    [] e.op = "level" -> IF e.out # LevelDef(tree, e.a) THEN {"ClauseLevel"} ELSE {}
    [] e.op = "dist" -> IF e.out # DistDef(tree, e.a, e.b) THEN {"ClauseDistance"} ELSE {}
    [] e.op = "rmq" ->
         LET elems == [i \in 1..Len(e.arr) |-> <<e.arr[i], i - 1>>]
         IN IF e.out # RangeMin(elems, e.s, e.e) THEN {"ClauseRangeMin"} ELSE {}
    [] OTHER -> {"ClauseUnknownOp"}

Judge(e) ==
  LET bad == Clauses(e) IN
  IF bad = {} THEN TRUE
  ELSE PrintT(<<"VERDICT", e.n, bad>>) /\ TLCSet(1, TLCGet(1) + 1)

Init == l = 1 /\ tree = <<0>> /\ TLCSet(1, 0)
Next == /\ l <= Len(Log)
        /\ Judge(Log[l])
        /\ tree' = IF Log[l].op = "tree" THEN Log[l].par ELSE tree
        /\ l' = l + 1
Spec == Init /\ [][Next]_vars

Consumed ==
  /\ PrintT(<<"SUMMARY", TLCGet("stats").diameter - 1, Len(Log), TLCGet(1)>>)
  /\ TLCGet("stats").diameter - 1 = Len(Log)
=============================================================================
