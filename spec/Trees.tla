------------------------------- MODULE Trees -------------------------------
(***************************************************************************)
(* Rooted ordered trees as pre-order parent arrays: node 1 is the root,    *)
(* t[u] is the parent of u (0 for the root), the children of a node are    *)
(* ordered by index, which is the order in which the code stores them.     *)
(* Everything is defined on parent chains; nothing here mirrors the Euler  *)
(* tour / sparse table machinery of the code (that is Rmq.tla).            *)
(***************************************************************************)
EXTENDS Integers, Sequences, FiniteSets, SequencesExt, FiniteSetsExt, Functions, TLC

Nodes(t) == 1..Len(t)
Children(t, u) == {v \in Nodes(t) : t[v] = u}
IsLeaf(t, u) == \A v \in Nodes(t) : t[v] # u
Leaves(t) == {u \in Nodes(t) : IsLeaf(t, u)}
Internal(t) == Nodes(t) \ Leaves(t)
ChildSeq(t, u) == SetToSortSeq(Children(t, u), LAMBDA a, b : a < b)
\* binary trees: the left child follows its parent in pre-order
Left(t, u) == u + 1
Right(t, u) == CHOOSE v \in Children(t, u) : v # u + 1
IsBinary(t) == \A u \in Nodes(t) : Cardinality(Children(t, u)) \in {0, 2}

RECURSIVE Anc(_, _)
Anc(t, u) == IF u = 0 THEN {} ELSE {u} \cup Anc(t, t[u])     \* ancestors-or-self

(***************************************************************************)
(* Generators                                                              *)
(***************************************************************************)
\* join two pre-order arrays under a new root
Join(l, r) == <<0>> \o [i \in 1..Len(l) |-> IF l[i] = 0 THEN 1 ELSE l[i] + 1]
                    \o [i \in 1..Len(r) |-> IF r[i] = 0 THEN 1 ELSE r[i] + 1 + Len(l)]

\* every ordered binary tree with n leaves (Catalan(n-1) of them)
RECURSIVE BinShapes(_)
BinShapes(n) ==
  IF n = 1 THEN {<<0>>}
  ELSE UNION {{Join(l, r) : l \in BinShapes(i), r \in BinShapes(n - i)} : i \in 1..(n - 1)}

BinShapesUpTo(n) == UNION {BinShapes(k) : k \in 1..n}

\* caterpillar and (most) balanced binary trees with n leaves
RECURSIVE Caterpillar(_)
Caterpillar(n) == IF n = 1 THEN <<0>> ELSE Join(Caterpillar(n - 1), <<0>>)
RECURSIVE Balanced(_)
Balanced(n) == IF n = 1 THEN <<0>> ELSE Join(Balanced((n + 1) \div 2), Balanced(n \div 2))

\* every rooted ordered tree with n nodes, any arity (unary nodes included):
\* node i+1 hangs below some node of the path root .. i
RECURSIVE AllShapes(_)
AllShapes(n) ==
  IF n = 1 THEN {<<0>>}
  ELSE UNION {{Append(t, p) : p \in Anc(t, n - 1)} : t \in AllShapes(n - 1)}

\* trees in which every internal node has at least two children
NoUnary(t) == \A u \in Nodes(t) : Cardinality(Children(t, u)) # 1
RECURSIVE LeafCount(_)
LeafCount(t) == Cardinality(Leaves(t))

(***************************************************************************)
(* Ancestry tables of one tree, computed once per tree.                    *)
(***************************************************************************)
Info(t) ==
  LET N == Nodes(t)
      anc == [u \in N |-> Anc(t, u)]
      lev == [u \in N |-> Cardinality(anc[u]) - 1]
      lca == [a \in N |-> [b \in N |->
                CHOOSE c \in anc[a] \cap anc[b] : \A d \in anc[a] \cap anc[b] : lev[d] <= lev[c]]]
  IN [n |-> Len(t), par |-> t, anc |-> anc, lev |-> lev, lca |-> lca,
      dist |-> [a \in N |-> [b \in N |-> lev[a] + lev[b] - 2 * lev[lca[a][b]]]],
      desc |-> [a \in N |-> {d \in N : a \in anc[d]}],
      leaves |-> Leaves(t)]

IsAnc(I, a, d) == a \in I.anc[d]                  \* a is an ancestor-or-self of d
IsStrictAnc(I, a, d) == a \in I.anc[d] /\ a # d
Comparable(I, a, b) == IsAnc(I, a, b) \/ IsAnc(I, b, a)
Sep(I, a, b) == ~Comparable(I, a, b)

\* lca of a non-empty set of nodes
LcaSet(I, S) ==
  LET common == {c \in 1..I.n : \A x \in S : c \in I.anc[x]}
  IN CHOOSE c \in common : \A d \in common : I.lev[d] <= I.lev[c]

\* post-order = reverse pre-order works for bottom-up tables (children have
\* larger indices than their parent)
BottomUp(t) == [i \in 1..Len(t) |-> Len(t) + 1 - i]

\* clade (set of leaves below) of every node
Clade(t, I, u) == I.desc[u] \cap I.leaves
=============================================================================
