------------------------------- MODULE Pipeline ----------------------------
(* The reconcile command as a state machine over PipelineOps (see there). *)
EXTENDS PipelineOps

CONSTANTS Cases,
          LabelOnlyInSuperSolvers   \* TRUE: names are generated inside the super-reconciliation
                                    \* solvers only (defect D7 of the pinned tree)

VARIABLES case, phase, onames, snames, exit, nout
vars == <<case, phase, onames, snames, exit, nout>>

Init == /\ case \in Cases /\ phase = "start"
        /\ onames = <<>> /\ snames = <<>> /\ exit = -1 /\ nout = 0

Read == /\ phase = "start" /\ phase' = "read"
        /\ onames' = case.onames /\ snames' = case.snames
        /\ UNCHANGED <<case, exit, nout>>

\* read_input labels the ancestors (repaired code); in the pinned tree only the
\* super-reconciliation solvers did
Label == /\ phase = "read"
         /\ ~LabelOnlyInSuperSolvers \/ (case.alg \in SuperAlgs /\ case.hassyn)
         /\ phase' = "labelled"
         /\ onames' = LabelRule(onames, "O") /\ snames' = LabelRule(snames, "S")
         /\ UNCHANGED <<case, exit, nout>>
SkipLabel == /\ phase = "read" /\ LabelOnlyInSuperSolvers /\ ~(case.alg \in SuperAlgs /\ case.hassyn)
             /\ phase' = "labelled" /\ UNCHANGED <<case, onames, snames, exit, nout>>

Reject == /\ phase = "labelled" /\ case.alg \in SuperAlgs /\ ~case.hassyn
          /\ phase' = "rejected" /\ exit' = 1 /\ nout' = 0
          /\ UNCHANGED <<case, onames, snames>>
Solve == /\ phase = "labelled" /\ ~(case.alg \in SuperAlgs /\ ~case.hassyn)
         /\ phase' = "solved" /\ UNCHANGED <<case, onames, snames, exit, nout>>
Dump == /\ phase = "solved" /\ phase' = "dumped" /\ exit' = 0
        /\ nout' \in 1..2          \* at least one solution is written for a well-formed input
        /\ UNCHANGED <<case, onames, snames>>

Next == Read \/ Label \/ SkipLabel \/ Reject \/ Solve \/ Dump
Spec == Init /\ [][Next]_vars

NamesInv == phase = "dumped" =>
  NamesOK(case.onames, onames, "O") /\ NamesOK(case.snames, snames, "S")
RejectInv == (case.alg \in SuperAlgs /\ ~case.hassyn) =>
  (phase # "dumped" /\ phase # "solved" /\ (phase = "rejected" => exit = 1 /\ nout = 0))
\* the code-shaped rule meets the contract on every case
RuleInv == NamesOK(case.onames, LabelRule(case.onames, "O"), "O")
           /\ NamesOK(case.snames, LabelRule(case.snames, "S"), "S")
=============================================================================
