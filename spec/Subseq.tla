------------------------------- MODULE Subseq ------------------------------
(***************************************************************************)
(* The bit scan of subseq_segment_dist as a state machine.                 *)
(***************************************************************************)
EXTENDS SubseqOps

CONSTANTS NBits,          \* masks range over 0..2^NBits-1
          EarlyExitBug    \* TRUE: the final correction ignores `edges` (mutant used as a binding self-test)

VARIABLES child0, parent0, edges, c, p, i, inseg, dist, pc, ret
vars == <<child0, parent0, edges, c, p, i, inseg, dist, pc, ret>>

Masks == 0..(2 ^ NBits - 1)

Init ==
  /\ parent0 \in Masks
  /\ child0 \in Masks \ {0}
  /\ edges \in BOOLEAN
  /\ c = child0 /\ p = parent0 /\ i = 0
  /\ inseg = ~edges /\ dist = 0
  /\ pc = "start" /\ ret = -2

Guard ==
  /\ pc = "start"
  /\ IF BitLen(parent0) < BitLen(child0)
     THEN pc' = "done" /\ ret' = -1
     ELSE pc' = "loop" /\ ret' = ret
  /\ UNCHANGED <<child0, parent0, edges, c, p, i, inseg, dist>>

Step ==
  /\ pc = "loop" /\ i < BitLen(parent0)
  /\ LET bc == c % 2
         bp == p % 2
     IN IF bc = 1 /\ bp = 0
        THEN pc' = "done" /\ ret' = -1 /\ UNCHANGED <<inseg, dist>>
        ELSE /\ pc' = pc /\ ret' = ret
             /\ IF bp = 1
                THEN IF bc = 0
                     THEN (IF ~inseg THEN dist' = dist + 1 /\ inseg' = TRUE
                           ELSE UNCHANGED <<dist, inseg>>)
                     ELSE inseg' = FALSE /\ dist' = dist
                ELSE UNCHANGED <<inseg, dist>>
  /\ c' = c \div 2 /\ p' = p \div 2 /\ i' = i + 1
  /\ UNCHANGED <<child0, parent0, edges>>

Finish ==
  /\ pc = "loop" /\ i = BitLen(parent0)
  /\ pc' = "done"
  /\ ret' = IF inseg /\ (~edges \/ EarlyExitBug) THEN dist - 1 ELSE dist
  /\ UNCHANGED <<child0, parent0, edges, c, p, i, inseg, dist>>

Next == Guard \/ Step \/ Finish
Spec == Init /\ [][Next]_vars

\* the result is the declarative distance
ResultInv == pc = "done" => ret = SegDist(child0, parent0, edges)
\* the two declarative formulations agree
StartsInv == pc = "start" => SegDist(child0, parent0, edges) = SegDistStarts(child0, parent0, edges)

\* loop invariant: before looking at bit i, `dist` is the number of runs
\* opened strictly below i (the run touching the low end is not counted when
\* ends are excluded) and `inseg` tells whether the last parent position seen
\* is missing from the child (or nothing was seen and ends are excluded)
LoopInv == pc = "loop" =>
  LET P == {x \in BitsOf(parent0) : x < i}
      C == {x \in BitsOf(child0) : x < i}
      q == SetToSortSeq(P, LAMBDA a, b : a < b)
      starts == RunStarts(C, q)
  IN /\ C \subseteq P
     /\ c = child0 \div (2 ^ i) /\ p = parent0 \div (2 ^ i)
     /\ dist = Cardinality(starts) - (IF ~edges /\ Len(q) > 0 /\ q[1] \notin C THEN 1 ELSE 0)
     /\ inseg = (IF Len(q) = 0 THEN ~edges ELSE q[Len(q)] \notin C)
     /\ dist >= 0

=============================================================================
