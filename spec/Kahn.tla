-------------------------------- MODULE Kahn -------------------------------
(***************************************************************************)
(* toposort (Kahn's algorithm with a queue) as a state machine.  `order`   *)
(* is the insertion order of the dict (the initial queue); newly free      *)
(* successors are appended in any order (set iteration).                   *)
(***************************************************************************)
EXTENDS ToposortOps

CONSTANTS Graphs

VARIABLES g, order, queue, indeg, result, pc
vars == <<g, order, queue, indeg, result, pc>>

Init == /\ g \in Graphs
        /\ order \in Perms(Verts(g))
        /\ queue = <<>> /\ indeg = <<>> /\ result = <<>>
        /\ pc = "init"

Start == /\ pc = "init"
         /\ indeg' = InDeg(g)
         /\ queue' = SelectSeq(order, LAMBDA v : Preds(g, v) = {})
         /\ pc' = "loop"
         /\ UNCHANGED <<g, order, result>>

Pop == /\ pc = "loop" /\ queue # <<>>
       /\ LET v == Head(queue)
              ind2 == [x \in Verts(g) |-> IF x \in Succs(g, v) THEN indeg[x] - 1 ELSE indeg[x]]
              free == {x \in Succs(g, v) : ind2[x] = 0}
          IN /\ indeg' = ind2
             /\ result' = Append(result, v)
             /\ \E p \in Perms(free) : queue' = Tail(queue) \o p
       /\ UNCHANGED <<g, order, pc>>

Stop == /\ pc = "loop" /\ queue = <<>>
        /\ pc' = "done"
        /\ UNCHANGED <<g, order, queue, indeg, result>>

Next == Start \/ Pop \/ Stop
Spec == Init /\ [][Next]_vars

\* the routine returns `result` when it has every vertex, None otherwise
ResultInv == pc = "done" =>
  /\ Len(result) = g.n => result \in AllOrders(g)
  /\ (Len(result) = g.n) <=> (AllOrders(g) # {})
PrefixInv == \A i \in DOMAIN result : \A u \in Preds(g, result[i]) :
               \E j \in 1..(i - 1) : result[j] = u
=============================================================================
