------------------------------- MODULE TraceMeta ---------------------------
(***************************************************************************)
(* Relations between recorded runs of the real code (C09, C10).  The       *)
(* relations are those vetted on the specification by Meta.tla.            *)
(*  {"op":"agree","single":bool,"hgtinf":bool,"mins":{"lca","thl","exh",   *)
(*   "oe","ob","ue","ub"}}            minima of the seven algorithms (C10)  *)
(*  {"op":"meta","algo":a,"variant":v,"k":k,"floss":f,"coh":bool,           *)
(*   "min":c,"size":n,"digest":"..","opt":[solution,..]}           (C09)    *)
(*   variant "base" opens a session for `algo`; the following events with   *)
(*   the same algo are judged against it.  A solution is a list of          *)
(*   [object clade, species clade, synteny]; "opt" is omitted ([]) when the *)
(*   set is large, "digest" identifies the canonical set in any case.       *)
(***************************************************************************)
EXTENDS Integers, Sequences, FiniteSets, TLC, Json, IOUtils, TLCExt

Inf == 1000000
Log == ndJsonDeserialize(IOEnv.TRACE_FILE)

VARIABLES l, bases
vars == <<l, bases>>

SetOf(s) == {s[i] : i \in DOMAIN s}
SolSet(opt) == {{<<SetOf(x[1]), SetOf(x[2]), x[3]>> : x \in SetOf(opt[i])} : i \in DOMAIN opt}
Mul(k, a) == IF a >= Inf THEN Inf ELSE k * a

AgreeClauses(e) ==
  LET m == e.mins IN
  (IF m.oe > m.ob \/ m.ue > m.ub THEN {"ClauseExtendedLeBase"} ELSE {})
  \cup (IF m.ue > m.oe \/ m.ub > m.ob THEN {"ClauseUnorderedLeOrdered"} ELSE {})
  \cup (IF m.thl > m.lca THEN {"ClauseDtlLeLca"} ELSE {})
  \cup (IF m.exh >= 0 /\ m.exh # m.thl THEN {"ClauseExhaustiveEqThl"} ELSE {})
  \cup (IF e.hgtinf /\ m.thl # m.lca THEN {"ClauseDtlEqLcaWithoutTransfers"} ELSE {})
  \cup (IF e.single /\ ~(m.oe = m.thl /\ m.ue = m.thl /\ m.ob = m.lca /\ m.ub = m.lca)
        THEN {"ClauseSingleFamilyCoincide"} ELSE {})

SameOpt(e, b) == e.digest = b.digest /\ e.size = b.size /\
                 ((e.opt # <<>> /\ b.opt # <<>>) => SolSet(e.opt) = SolSet(b.opt))
MetaClauses(e) ==
  IF e.variant = "base" THEN (IF e.size # Len(e.opt) /\ e.opt # <<>> THEN {"ClauseBaseSize"} ELSE {})
  ELSE IF e.algo \notin DOMAIN bases THEN {"ClauseNoBaseRun"}
  ELSE LET b == bases[e.algo] IN
    CASE e.variant \in {"reorder", "rename", "again", "fresh"} ->
           (IF e.min # b.min THEN {"ClauseSameMinimum"} ELSE {})
           \cup (IF ~SameOpt(e, b) THEN {"ClauseSameOptimalSet"} ELSE {})
      [] e.variant = "outgroup" ->
           (IF e.min # b.min THEN {"ClauseSameMinimum"} ELSE {})
           \cup (IF e.floss > 0 /\ ~SameOpt(e, b) THEN {"ClauseSameOptimalSet"} ELSE {})
      [] e.variant = "scale" ->
           (IF e.min # Mul(e.k, b.min) THEN {"ClauseScaledMinimum"} ELSE {})
           \cup (IF ~SameOpt(e, b) THEN {"ClauseSameOptimalSet"} ELSE {})
      [] e.variant = "raise" -> (IF e.coh /\ e.min < b.min THEN {"ClauseMonotone"} ELSE {})
      [] e.variant = "any" ->
           (IF e.min # b.min THEN {"ClauseSameMinimum"} ELSE {})
           \cup (IF b.size > 0 /\ e.size # 1 THEN {"ClauseAnyOne"} ELSE {})
           \cup (IF b.opt # <<>> /\ ~(SolSet(e.opt) \subseteq SolSet(b.opt)) THEN {"ClauseAnyMember"} ELSE {})
      [] OTHER -> {"ClauseUnknownVariant"}

Clauses(e) == IF e.op = "agree" THEN AgreeClauses(e)
              ELSE IF e.op = "meta" THEN MetaClauses(e) ELSE {"ClauseUnknownOp"}
Judge(e) ==
  LET bad == Clauses(e) IN
  IF bad = {} THEN TRUE
  ELSE PrintT(<<"VERDICT", e.n, bad>>) /\ TLCSet(1, TLCGet(1) + 1)

Init == l = 1 /\ bases = <<>> /\ TLCSet(1, 0)
Next == /\ l <= Len(Log)
        /\ Judge(Log[l])
        /\ bases' = IF Log[l].op = "meta" /\ Log[l].variant = "base"
                    THEN (Log[l].algo :> Log[l]) @@ bases ELSE bases
        /\ l' = l + 1
Spec == Init /\ [][Next]_vars

Consumed ==
  /\ PrintT(<<"SUMMARY", TLCGet("stats").diameter - 1, Len(Log), TLCGet(1)>>)
  /\ TLCGet("stats").diameter - 1 = Len(Log)
=============================================================================
