-------------------------------- MODULE Triples ----------------------------
(***************************************************************************)
(* Two state machines over TriplesOps:                                     *)
(*  SpecBreak: tree_to_triples (BreakUp) on a binary tree: repeatedly take *)
(*    a cherry that is not the root, emit (cherry | one leaf of its        *)
(*    sister), drop one leaf of the cherry; which cherry, which leaf is    *)
(*    dropped and which leaf of the sister is named depend on set and      *)
(*    child order in the code and are left to TLC.  At the end BUILD on    *)
(*    the emitted triples must give back the clades of the tree.           *)
(*  SpecSets: for a leaf set and a set of triples, BUILD succeeds iff some *)
(*    binary tree displays them, its result displays them, and AllTrees    *)
(*    is exactly that set of trees, each once.                             *)
(***************************************************************************)
EXTENDS TriplesOps

CONSTANTS MaxLeaves,     \* SpecBreak: binary trees on 1..k for k <= MaxLeaves
          SetLeaves,     \* SpecSets: the leaf set
          DropBoth       \* TRUE: BreakUp drops the whole cherry (self-test mutant)

VARIABLES t0, cur, out, pc
vars == <<t0, cur, out, pc>>

Canon(C, z) == <<Min(C), Max(C), z>>
RootOf(T) == LeavesOf(T)
Cherries(T) == {C \in T : Cardinality(C) = 2 /\ C # RootOf(T)}
ParentClade(T, C) == CHOOSE D \in T : C \subseteq D /\ C # D /\
                        \A E \in T : (C \subseteq E /\ C # E) => D \subseteq E

BreakInit == /\ t0 \in UNION {AllBinaryTrees(1..k) : k \in 1..MaxLeaves}
             /\ cur = t0 /\ out = {} /\ pc = "break"
BreakStep ==
  /\ pc = "break"
  /\ \E C \in Cherries(cur) : \E drop \in C : \E z \in ParentClade(cur, C) \ C :
       /\ out' = out \cup {Canon(C, z)}
       /\ cur' = {D \ (IF DropBoth THEN C ELSE {drop}) : D \in cur} \ {{}}
  /\ UNCHANGED <<t0, pc>>
BreakDone == /\ pc = "break" /\ Cherries(cur) = {}
             /\ pc' = "done" /\ UNCHANGED <<t0, cur, out>>
SpecBreak == BreakInit /\ [][BreakStep \/ BreakDone]_vars

\* every emitted triple is displayed by the tree; the current tree is the
\* restriction of the original to the leaves still present
BreakInv == /\ \A tr \in out : Displays(t0, tr)
            /\ cur = RestrictTree(t0, LeavesOf(cur))
\* rebuilding gives the same clades
RebuildInv == pc = "done" =>
  LET b == Build(LeavesOf(t0), out) IN b.ok /\ b.t = t0
\* and the triples pin the tree down: it is the only binary tree displaying them
UniqueInv == pc = "done" => TreesDisplaying(LeavesOf(t0), out) = {t0}

SetsInit == /\ t0 \in SUBSET AllTriples(SetLeaves)
            /\ cur = {} /\ out = {} /\ pc = "sets"
SpecSets == SetsInit /\ [][FALSE]_vars
BuildIffInv == pc = "sets" =>
  LET b == Build(SetLeaves, t0) IN
  /\ b.ok <=> TreesDisplaying(SetLeaves, t0) # {}
  /\ b.ok => (LeavesOf(b.t) = SetLeaves /\ \A tr \in t0 : Displays(b.t, tr))
AllTreesInv == pc = "sets" =>
  LET all == AllTreesImpl(SetLeaves, t0) IN
  /\ {all[i] : i \in DOMAIN all} = TreesDisplaying(SetLeaves, t0)
  /\ Len(all) = Cardinality(TreesDisplaying(SetLeaves, t0))
=============================================================================
