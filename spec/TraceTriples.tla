----------------------------- MODULE TraceTriples --------------------------
(***************************************************************************)
(* Trace validation for the triple / supertree routines and DisjointSet.   *)
(* Trees are lists of clades (lists of leaf numbers), triples are [a,b,c]  *)
(* for ab|c.                                                               *)
(*  {"op":"breakup","tree":[[..],..],"leaves":[..],"triples":[[a,b,c],..]}  *)
(*  {"op":"build","leaves":[..],"triples":[..],"ok":bool,"tree":[[..],..]}  *)
(*  {"op":"alltrees","leaves":[..],"triples":[..],"trees":[[[..],..],..]}   *)
(*  {"op":"supertree","inputs":[tree,..],"ok":bool,"tree":[[..],..]}        *)
(*  {"op":"allsuper","inputs":[tree,..],"trees":[tree,..]}                  *)
(*  {"op":"dsu","size":k,"ops":[["u",a,b]|["f",a,a],..],"rets":[..],           *)
(*   "blocks":[[..],..],"len":g,"binary":[[[..],[..]],..]}                  *)
(***************************************************************************)
EXTENDS TriplesOps, Json, IOUtils, TLCExt

Log == ndJsonDeserialize(IOEnv.TRACE_FILE)

VARIABLES l
vars == <<l>>

SetOf(s) == {s[i] : i \in DOMAIN s}
TreeOf(cl) == {SetOf(cl[i]) : i \in DOMAIN cl}
Canon3(tr) == IF tr[1] < tr[2] THEN <<tr[1], tr[2], tr[3]>> ELSE <<tr[2], tr[1], tr[3]>>
TripSet(ts) == {Canon3(ts[i]) : i \in DOMAIN ts}
IsTreeOn(T, L) == /\ L \in T /\ \A x \in L : {x} \in T /\ UNION T = L
                  /\ \A A, B \in T : A \cap B = {} \/ A \subseteq B \/ B \subseteq A

\* disjoint sets, declaratively
Singles(n) == {{x} : x \in 0..(n - 1)}
BlkOf(P, x) == CHOOSE b \in P : x \in b
Mrg(P, a, b) == IF BlkOf(P, a) = BlkOf(P, b) THEN P
                ELSE (P \ {BlkOf(P, a), BlkOf(P, b)}) \cup {BlkOf(P, a) \cup BlkOf(P, b)}
\* a fold, not a recursion: TLC passes arguments unevaluated, a recursion over a
\* long history nests one thunk per operation and overflows the Java stack
PartAfter(P, ops, i) ==
  FoldLeft(LAMBDA acc, op : IF op[1] = "u" THEN Mrg(acc, op[2], op[3]) ELSE acc, P, SubSeq(ops, i, Len(ops)))
RetAt(n, ops, i) == LET P == PartAfter(Singles(n), SubSeq(ops, 1, i - 1), 1) IN
                    IF ops[i][1] = "f" THEN "found"
                    ELSE IF BlkOf(P, ops[i][2]) = BlkOf(P, ops[i][3]) THEN "same" ELSE "merged"
TwoBlk(P) == IF Cardinality(P) < 2 THEN {}
             ELSE LET b0 == CHOOSE b \in P : TRUE IN
                  {{UNION S, UNION (P \ S)} : S \in {X \in SUBSET P : b0 \in X /\ X # P}}

Clauses(e) ==
  CASE e.op = "breakup" ->
         LET T == TreeOf(e.tree)
             R == TripSet(e.triples)
             b == Build(LeavesOf(T), R)
         IN (IF SetOf(e.leaves) # LeavesOf(T) THEN {"ClauseBreakupLeaves"} ELSE {})
            \cup (IF \E tr \in R : ~Displays(T, tr) THEN {"ClauseTriplesDisplayed"} ELSE {})
            \cup (IF ~(b.ok /\ b.t = T) THEN {"ClauseTriplesRebuild"} ELSE {})
    [] e.op = "build" ->
         LET L == SetOf(e.leaves)
             R == TripSet(e.triples)
             T == TreeOf(e.tree)
             exists == TreesDisplaying(L, R) # {}
         IN (IF e.ok # exists THEN {"ClauseBuildIff"} ELSE {})
            \cup (IF e.ok /\ ~IsTreeOn(T, L) THEN {"ClauseBuildTree"} ELSE {})
            \cup (IF e.ok /\ \E tr \in R : ~Displays(T, tr) THEN {"ClauseBuildDisplays"} ELSE {})
    [] e.op = "alltrees" ->
         LET L == SetOf(e.leaves)
             R == TripSet(e.triples)
             got == {TreeOf(e.trees[i]) : i \in DOMAIN e.trees}
             want == TreesDisplaying(L, R)
         IN (IF ~(got \subseteq want) THEN {"ClauseAllTreesOnlyDisplaying"} ELSE {})
            \cup (IF ~(want \subseteq got) THEN {"ClauseAllTreesComplete"} ELSE {})
            \cup (IF Len(e.trees) # Cardinality(got) THEN {"ClauseAllTreesOnce"} ELSE {})
    [] e.op \in {"supertree", "allsuper"} ->
         LET ins == [i \in DOMAIN e.inputs |-> TreeOf(e.inputs[i])]
             L == UNION {LeavesOf(ins[i]) : i \in DOMAIN ins}
             R == UNION {TriplesOf(ins[i]) : i \in DOMAIN ins}
             want == TreesDisplaying(L, R)
         IN IF e.op = "supertree" THEN
              LET T == TreeOf(e.tree) IN
              (IF e.ok # (want # {}) THEN {"ClauseSupertreeIff"} ELSE {})
              \cup (IF e.ok /\ ~IsTreeOn(T, L) THEN {"ClauseSupertreeLeaves"} ELSE {})
              \cup (IF e.ok /\ \E tr \in R : ~Displays(T, tr) THEN {"ClauseSupertreeDisplays"} ELSE {})
            ELSE
              LET got == {TreeOf(e.trees[i]) : i \in DOMAIN e.trees} IN
              (IF got # want THEN {"ClauseAllSupertrees"} ELSE {})
              \cup (IF Len(e.trees) # Cardinality(got) THEN {"ClauseAllSupertreesOnce"} ELSE {})
    [] e.op = "dsu" ->
         LET P == PartAfter(Singles(e.size), e.ops, 1)
             got == {SetOf(e.blocks[i]) : i \in DOMAIN e.blocks}
             bin == [i \in DOMAIN e.binary |-> {SetOf(e.binary[i][j]) : j \in DOMAIN e.binary[i]}]
         IN (IF got # P \/ Len(e.blocks) # Cardinality(P) THEN {"ClausePartition"} ELSE {})
            \cup (IF e.len # Cardinality(P) THEN {"ClauseBlockCount"} ELSE {})
            \cup (IF \E i \in DOMAIN e.ops : e.rets[i] # RetAt(e.size, e.ops, i) THEN {"ClauseUniteResult"} ELSE {})
            \cup (IF {bin[i] : i \in DOMAIN bin} # TwoBlk(P) \/ Len(bin) # Cardinality(TwoBlk(P))
                  THEN {"ClauseBinaryCoarsenings"} ELSE {})
    [] OTHER -> {"ClauseUnknownOp"}

Judge(e) ==
  LET bad == Clauses(e) IN
  IF bad = {} THEN TRUE
  ELSE PrintT(<<"VERDICT", e.n, bad>>) /\ TLCSet(1, TLCGet(1) + 1)

Init == l = 1 /\ TLCSet(1, 0)
Next == l <= Len(Log) /\ Judge(Log[l]) /\ l' = l + 1
Spec == Init /\ [][Next]_vars

Consumed ==
  /\ PrintT(<<"SUMMARY", TLCGet("stats").diameter - 1, Len(Log), TLCGet(1)>>)
  /\ TLCGet("stats").diameter - 1 = Len(Log)
=============================================================================
