------------------------------- MODULE TraceTikz ---------------------------
(***************************************************************************)
(* Trace validation of generated TikZ documents, labels and wrapping (C15) *)
(*  {"op":"doc","tokens":[{"t":..,"c":..},..]}                              *)
(*  {"op":"escape","text":[codes],"out":[codes]}                            *)
(*  {"op":"label","leaf":bool,"fams":[[codes],..],"same_as_parent":bool,     *)
(*   "has":bool,"shown":[codes]}                                            *)
(*  {"op":"leafname","name":[codes],"shown":[codes]}                         *)
(*  {"op":"wrap","lens":[..],"width":w,"lines":[[..],..]}                    *)
(***************************************************************************)
EXTENDS TikzOps, Json, IOUtils, TLCExt

Log == ndJsonDeserialize(IOEnv.TRACE_FILE)
VARIABLES l
vars == <<l>>

Clauses(e) ==
  CASE e.op = "doc" -> Run(e.tokens)
    [] e.op = "escape" -> IF e.out # Escape(e.text) THEN {"ClauseEscape"} ELSE {}
    [] e.op = "label" ->
         IF ~e.has THEN (IF e.shown # <<>> /\ ~e.leaf THEN {"ClauseLabelContent"} ELSE {})
         ELSE IF ~e.leaf /\ e.same_as_parent THEN (IF e.shown # <<>> THEN {"ClauseLabelOmittedOnlyWhenEqualToParent"} ELSE {})
         ELSE LET esc == [i \in DOMAIN e.fams |-> Escape(e.fams[i])]
                  want == JoinFams(esc)
              IN IF ~Unbroken(want, e.shown) THEN {"ClauseLabelContent"}
                 ELSE IF ~LabelWrapOK(esc, e.shown, e.width) THEN {"ClauseLabelWrap"} ELSE {}
    [] e.op = "leafname" -> IF e.shown # LeafLabel(e.name) THEN {"ClauseLeafNameEscaped"} ELSE {}
    [] e.op = "wrap" -> WrapClauses(e.lens, e.width, e.lines)
    [] OTHER -> {"ClauseUnknownOp"}
Judge(e) ==
  LET bad == Clauses(e) IN
  IF bad = {} THEN TRUE
  ELSE PrintT(<<"VERDICT", e.n, bad>>) /\ TLCSet(1, TLCGet(1) + 1)
Init == l = 1 /\ TLCSet(1, 0)
Next == l <= Len(Log) /\ Judge(Log[l]) /\ l' = l + 1
Spec == Init /\ [][Next]_vars
Consumed ==
  /\ PrintT(<<"SUMMARY", TLCGet("stats").diameter - 1, Len(Log), TLCGet(1)>>)
  /\ TLCGet("stats").diameter - 1 = Len(Log)
=============================================================================
