------------------------------ MODULE DrawingMC ----------------------------
(***************************************************************************)
(* The abstract drawing agrees with the cost model: for every valid        *)
(* reconciliation of every input, the cost equals the unit costs of the    *)
(* drawn event nodes plus one full loss per drawn loss marker, every       *)
(* object node is drawn once, and every transfer has one arrow.            *)
(***************************************************************************)
EXTENDS Drawing

CONSTANTS Inputs, SpShapes
SpInfo == [st \in SpShapes |-> Info(st)]

VARIABLES input, m
vars == <<input, m>>
Init == /\ input \in Inputs
        /\ m \in ValidMappings(input.ot, SpInfo[input.st], input.lm)
Spec == Init /\ [][FALSE]_vars

KindCost(c, k) == CASE k = "S" -> c.spe [] k = "D" -> c.dup [] k = "T" -> c.hgt [] OTHER -> 0
DrawCostInv ==
  LET I == SpInfo[input.st]
      ev == EventNodes(input.ot, I, m)
      bag == LossBag(input.ot, I, m)
      evcost == FoldLeft(LAMBDA a, x : Add(a, KindCost(input.c, x[1])), 0, SetToSeq(ev))
      nloss == FoldLeft(LAMBDA a, x : a + bag[x], 0, [i \in 1..I.n |-> i])
  IN /\ RecCost(input.ot, I, input.c, m) = Add(evcost, input.c.floss * nloss)
     /\ Cardinality(ev) = Len(input.ot)
     /\ Cardinality(Arrows(input.ot, I, m)) = Cardinality({x \in ev : x[1] = "T"})
=============================================================================
