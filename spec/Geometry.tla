------------------------------- MODULE Geometry ----------------------------
(***************************************************************************)
(* Geometric contract of a reconciliation layout (render/layout.py) over   *)
(* integer coordinates (the driver scales the dyadic coordinates).         *)
(* A rectangle is <<x, y, w, h>>, a point <<x, y>>.                        *)
(***************************************************************************)
EXTENDS Integers, Sequences, FiniteSets, TLC

RightEdge(r) == r[1] + r[3]
BottomEdge(r) == r[2] + r[4]
Inside(r, R) == r[1] >= R[1] /\ r[2] >= R[2] /\ RightEdge(r) <= RightEdge(R) /\ BottomEdge(r) <= BottomEdge(R)
\* interiors do not meet (touching edges allowed; empty boxes meet nothing)
Disjoint(a, b) == \/ a[3] = 0 \/ a[4] = 0 \/ b[3] = 0 \/ b[4] = 0
                  \/ RightEdge(a) <= b[1] \/ RightEdge(b) <= a[1] \/ BottomEdge(a) <= b[2] \/ BottomEdge(b) <= a[2]
\* the same with a tolerance t (layouts whose coordinates had to be rounded)
InsideT(r, R, t) == r[1] >= R[1] - t /\ r[2] >= R[2] - t /\ RightEdge(r) <= RightEdge(R) + t /\ BottomEdge(r) <= BottomEdge(R) + t
DisjointT(a, b, t) == \/ a[3] = 0 \/ a[4] = 0 \/ b[3] = 0 \/ b[4] = 0
                      \/ RightEdge(a) <= b[1] + t \/ RightEdge(b) <= a[1] + t
                      \/ BottomEdge(a) <= b[2] + t \/ BottomEdge(b) <= a[2] + t
Abs(x) == IF x < 0 THEN -x ELSE x
CloseTuple(a, b, t) == Len(a) = Len(b) /\ \A i \in DOMAIN a : Abs(a[i] - b[i]) <= t
TransposeRect(r) == <<r[2], r[1], r[4], r[3]>>
TransposePoint(p) == <<p[2], p[1]>>
=============================================================================
