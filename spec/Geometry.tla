------------------------------- MODULE Geometry ----------------------------
(***************************************************************************)
(* Geometric contract of a reconciliation layout (render/layout.py) over   *)
(* integer coordinates (the driver scales the dyadic coordinates).         *)
(* A rectangle is <<x, y, w, h>>, a point <<x, y>>.                        *)
(***************************************************************************)
EXTENDS Integers, Sequences, FiniteSets, TLC

RightEdge(r) == r[1] + r[3]
BottomEdge(r) == r[2] + r[4]
Inside(r, R) == r[1] >= R[1] /\ r[2] >= R[2] /\ RightEdge(r) <= RightEdge(R) /\ BottomEdge(r) <= BottomEdge(R)
\* interiors do not meet (touching edges allowed; empty boxes meet nothing)
Disjoint(a, b) == \/ a[3] = 0 \/ a[4] = 0 \/ b[3] = 0 \/ b[4] = 0
                  \/ RightEdge(a) <= b[1] \/ RightEdge(b) <= a[1] \/ BottomEdge(a) <= b[2] \/ BottomEdge(b) <= a[2]
TransposeRect(r) == <<r[2], r[1], r[4], r[3]>>
TransposePoint(p) == <<p[2], p[1]>>
=============================================================================
