------------------------------ MODULE TriplesOps ---------------------------
(***************************************************************************)
(* Rooted triples and supertrees (utils/trees.py: tree_to_triples,         *)
(* tree_from_triples, all_trees_from_triples, supertree, all_supertrees).  *)
(* A tree on the leaf set L is the set of its clades (L and every          *)
(* singleton included); a triple <<a, b, c>> stands for ab|c.              *)
(***************************************************************************)
EXTENDS Integers, Sequences, FiniteSets, SequencesExt, FiniteSetsExt, TLC

Trivial(L) == {L} \cup {{x} : x \in L}
\* unordered two-way splits of L, named by the side holding the least leaf
Splits(L) == {A \in SUBSET L : A # L /\ Min(L) \in A}
RECURSIVE AllBinaryTrees(_)
AllBinaryTrees(L) ==
  IF Cardinality(L) = 1 THEN {{L}}
  ELSE UNION {{{L} \cup t1 \cup t2 : t1 \in AllBinaryTrees(A), t2 \in AllBinaryTrees(L \ A)} : A \in Splits(L)}

LeavesOf(T) == UNION T
IsBinaryTree(T) == \A C \in T : Cardinality(C) > 1 =>
  \E A, B \in T : A # B /\ A \cap B = {} /\ A \cup B = C
Displays(T, tr) == \E C \in T : tr[1] \in C /\ tr[2] \in C /\ tr[3] \notin C
AllTriples(L) == {tr \in L \X L \X L : tr[1] < tr[2] /\ tr[3] # tr[1] /\ tr[3] # tr[2]}
TriplesOf(T) == {tr \in AllTriples(LeavesOf(T)) : Displays(T, tr)}
\* declarative answer of the all-trees routine
TreesDisplaying(L, R) == {T \in AllBinaryTrees(L) : \A tr \in R : Displays(T, tr)}

(***************************************************************************)
(* Code-shaped: BUILD / OneTree and AllTrees by recursive partitioning.    *)
(***************************************************************************)
Within(R, L) == {tr \in R : tr[1] \in L /\ tr[2] \in L /\ tr[3] \in L}
RECURSIVE Comp(_, _, _)
Comp(L, R, S) ==
  LET S2 == S \cup {x \in L : \E tr \in R : (tr[1] \in S /\ tr[2] = x) \/ (tr[2] \in S /\ tr[1] = x)}
  IN IF S2 = S THEN S ELSE Comp(L, R, S2)
\* the partition of L obtained by uniting the two close leaves of every triple
AhoBlocks(L, R) == {Comp(L, R, {x}) : x \in L}

Fail == [ok |-> FALSE, t |-> {}]
RECURSIVE Build(_, _)
Build(L, R) ==
  IF Cardinality(L) <= 2 THEN [ok |-> L # {}, t |-> Trivial(L)]
  ELSE LET B == AhoBlocks(L, Within(R, L)) IN
       IF Cardinality(B) <= 1 THEN Fail
       ELSE LET subs == [b \in B |-> Build(b, Within(R, b))] IN
            IF \E b \in B : ~subs[b].ok THEN Fail
            ELSE [ok |-> TRUE, t |-> {L} \cup UNION {subs[b].t : b \in B}]

\* two-block coarsenings of a set of blocks, as a sequence of pairs of leaf sets
Coarsenings(B) ==
  IF Cardinality(B) < 2 THEN <<>>
  ELSE LET b0 == CHOOSE b \in B : TRUE IN
       SetToSeq({<<UNION S, UNION (B \ S)>> : S \in {X \in SUBSET B : b0 \in X /\ X # B}})

\* AllTrees: a sequence (bag) of trees
RECURSIVE AllTreesRec(_, _)
AllTreesRec(L, R) ==
  IF Cardinality(L) <= 2 THEN (IF L = {} THEN <<>> ELSE <<Trivial(L)>>)
  ELSE LET cs == Coarsenings(AhoBlocks(L, Within(R, L)))
           one(c) == LET left == AllTreesRec(c[1], Within(R, c[1]))
                         right == AllTreesRec(c[2], Within(R, c[2]))
                     IN FoldLeft(LAMBDA acc, i :
                                   acc \o [j \in DOMAIN right |-> {L} \cup left[i] \cup right[j]],
                                 <<>>, [k \in DOMAIN left |-> k])
       IN FoldLeft(LAMBDA acc, c : acc \o one(c), <<>>, cs)
AllTreesImpl(L, R) == IF ~Build(L, R).ok THEN <<>> ELSE AllTreesRec(L, R)

\* restriction of a tree to a subset of its leaves
RestrictTree(T, L) == {C \cap L : C \in T} \ {{}}
=============================================================================
