-------------------------------- MODULE Serial -----------------------------
(***************************************************************************)
(* Name-keyed serialisation of a reconciliation (model/tree_mapping.py,    *)
(* model/synteny.py, to_dict / from_dict of model/reconciliation.py).      *)
(* A document holds two trees with named nodes, a species mapping and a    *)
(* labelling; its dictionary form refers to nodes by NAME; parsing looks    *)
(* each name up in the tree.  When the nodes of a tree are uniquely named  *)
(* the round trip is the identity, and serialising again gives the same    *)
(* dictionary (property C11).  FoldCase = TRUE makes the lookup            *)
(* case-insensitive (a self-test mutant: names differing only by case then *)
(* collide).                                                               *)
(***************************************************************************)
EXTENDS Trees

CONSTANTS Docs,       \* [ot, onames, st, snames, m]
          FoldCase

Lower(s) == CASE s = "A" -> "a" [] s = "B" -> "b" [] s = "P" -> "p" [] OTHER -> s
Key(s) == IF FoldCase THEN Lower(s) ELSE s
\* dictionary form: a function from names to names
Serialise(doc) == {<<doc.onames[u], doc.snames[doc.m[u]]>> : u \in DOMAIN doc.m}
\* lookup of a name in a tree: the code takes the node found by a traversal
Lookup(names, key) == CHOOSE u \in DOMAIN names : Key(names[u]) = Key(key) /\
                         \A v \in DOMAIN names : Key(names[v]) = Key(key) => (FoldCase => v <= u) /\ (~FoldCase => u <= v)
Parse(doc, dict) ==
  [doc EXCEPT !.m = [u \in DOMAIN doc.onames |->
                       LET hit == {p \in dict : Key(p[1]) = Key(doc.onames[u])}
                       IN IF hit = {} THEN 0 ELSE Lookup(doc.snames, (CHOOSE p \in hit : TRUE)[2])]]

VARIABLES doc, dict, phase
vars == <<doc, dict, phase>>
UniquelyNamed(names) == \A u, v \in DOMAIN names : u # v => names[u] # names[v]
Init == doc \in Docs /\ dict = {} /\ phase = "object"
ToDict == /\ phase = "object" /\ dict' = Serialise(doc) /\ phase' = "dict" /\ UNCHANGED doc
FromDict == /\ phase = "dict" /\ doc' = Parse(doc, dict) /\ phase' = "parsed" /\ UNCHANGED dict
Again == /\ phase = "parsed" /\ dict' = Serialise(doc) /\ phase' = "redumped" /\ UNCHANGED doc
Spec == Init /\ [][ToDict \/ FromDict \/ Again]_vars

\* for uniquely named documents the object and its dictionary never change
RoundTrip == [][(UniquelyNamed(doc.onames) /\ UniquelyNamed(doc.snames)) =>
                  /\ (phase = "dict" => doc' = doc)
                  /\ (phase = "parsed" => dict' = dict)]_vars
=============================================================================
