------------------------------- MODULE Packing -----------------------------
(***************************************************************************)
(* The subtree packing of render/layout.py (_layout_subtrees) as a state   *)
(* machine in integer arithmetic: the size of every species subtree is     *)
(* computed bottom-up from the trunk sizes and fork thicknesses, then the   *)
(* absolute boxes top-down.  Both orientations are modelled as the code    *)
(* writes them (two parallel branches); TLC checks the geometric contract  *)
(* of Geometry.tla and that the horizontal packing is the transposed       *)
(* vertical packing of the exchanged sizes.  Sizes are multiples of 16 so  *)
(* that every halving is exact (ExactInv).                                 *)
(***************************************************************************)
EXTENDS Trees, Geometry

CONSTANTS Shapes,       \* binary species tree shapes
          TrunkSizes,   \* possible trunk sizes <<w, h>> (vertical reading; exchanged for the horizontal run)
          Forks,        \* possible fork thicknesses of ancestral species
          Spacing,      \* min_subtree_spacing
          Level,        \* level_spacing
          ShiftBug,     \* TRUE: the right subtree is not shifted by the width of the left one (self-test mutant)
          GrowBox       \* TRUE: a subtree box grows to hold a trunk wider than its children (repaired code);
                        \* FALSE: the pinned tree, where such a trunk sticks out of the box (defect D9)

VARIABLES st, tsz, frk, k, pc, hv, vv
vars == <<st, tsz, frk, k, pc, hv, vv>>

Max2(a, b) == IF a >= b THEN a ELSE b
Swap(p) == <<p[2], p[1]>>
Kids(t, u) == <<u + 1, CHOOSE v \in Children(t, u) : v # u + 1>>

\* one node of the vertical packing: children infos l, r (records), own trunk size <<tw, th>>, fork f
SizeV(l, r, tw, th, f) ==
  LET span == Max2(l.size[2], r.size[2]) + th + Level + f
      ltd == l.size[1] - (l.trunk[1] + l.trunk[3])
      rtd == r.trunk[1]
      sp == Max2(tw - (ltd + rtd), Spacing)
      w == l.size[1] + sp + r.size[1]
      tx == l.size[1] + (sp - tw) \div 2
      before == IF GrowBox /\ tx < 0 THEN -tx ELSE 0
      after == IF GrowBox /\ tx + tw > w THEN tx + tw - w ELSE 0
  IN [size |-> <<w + before + after, span>>,
      lpos |-> <<before, span - l.size[2]>>,
      rpos |-> <<before + (IF ShiftBug THEN 0 ELSE l.size[1]) + sp, span - r.size[2]>>,
      trunk |-> <<before + tx, 0, tw, th>>,
      exact |-> (sp - tw) % 2 = 0]
\* the horizontal packing, as the code writes it (x and y exchanged by hand)
SizeH(l, r, tw, th, f) ==
  LET span == Max2(l.size[1], r.size[1]) + tw + Level + f
      ltd == l.size[2] - (l.trunk[2] + l.trunk[4])
      rtd == r.trunk[2]
      sp == Max2(th - (ltd + rtd), Spacing)
      h == l.size[2] + sp + r.size[2]
      ty == l.size[2] + (sp - th) \div 2
      before == IF GrowBox /\ ty < 0 THEN -ty ELSE 0
      after == IF GrowBox /\ ty + th > h THEN ty + th - h ELSE 0
  IN [size |-> <<span, h + before + after>>,
      lpos |-> <<span - l.size[1], before>>,
      rpos |-> <<span - r.size[1], before + (IF ShiftBug THEN 0 ELSE l.size[2]) + sp>>,
      trunk |-> <<0, before + ty, tw, th>>,
      exact |-> (sp - th) % 2 = 0]
LeafInfo(tw, th) == [size |-> <<tw, th>>, lpos |-> <<0, 0>>, rpos |-> <<0, 0>>, trunk |-> <<0, 0, tw, th>>, exact |-> TRUE]

Init == /\ st \in Shapes
        /\ tsz \in [Nodes(st) -> TrunkSizes]
        /\ frk \in [Nodes(st) -> Forks]
        /\ k = Len(st) /\ pc = "size"
        /\ hv = <<>> /\ vv = <<>>

\* bottom-up: sizes (vertical run with the given sizes; horizontal run with the sizes exchanged)
SizeStep ==
  /\ pc = "size" /\ k >= 1
  /\ LET leaf == IsLeaf(st, k)
         kd == IF leaf THEN <<0, 0>> ELSE Kids(st, k)
         f == IF leaf THEN 0 ELSE frk[k]
     IN /\ vv' = (k :> (IF leaf THEN LeafInfo(tsz[k][1], tsz[k][2])
                        ELSE SizeV(vv[kd[1]], vv[kd[2]], tsz[k][1], tsz[k][2], f))) @@ vv
        /\ hv' = (k :> (IF leaf THEN LeafInfo(tsz[k][2], tsz[k][1])
                        ELSE SizeH(hv[kd[1]], hv[kd[2]], tsz[k][2], tsz[k][1], f))) @@ hv
  /\ k' = k - 1
  /\ pc' = IF k = 1 THEN "place" ELSE "size"
  /\ UNCHANGED <<st, tsz, frk>>

\* top-down: absolute boxes
Placed(info, u, rect) == [info EXCEPT ![u] = [@ EXCEPT !.trunk = <<@[1] + rect[1], @[2] + rect[2], @[3], @[4]>>] @@ [rect |-> rect]]
PlaceAll(info) ==
  LET step(acc, u) ==
        LET rect == IF u = 1 THEN <<0, 0, acc[1].size[1], acc[1].size[2]>>
                    ELSE LET p == st[u]
                             pr == acc[p].rect
                             off == IF u = p + 1 THEN acc[p].lpos ELSE acc[p].rpos
                         IN <<pr[1] + off[1], pr[2] + off[2], acc[u].size[1], acc[u].size[2]>>
        IN [acc EXCEPT ![u] = [size |-> @.size, lpos |-> @.lpos, rpos |-> @.rpos, exact |-> @.exact, rect |-> rect,
                               trunk |-> <<@.trunk[1] + rect[1], @.trunk[2] + rect[2], @.trunk[3], @.trunk[4]>>]]
  IN FoldLeft(step, info, [i \in 1..Len(st) |-> i])
PlaceStep == /\ pc = "place" /\ pc' = "done"
             /\ vv' = PlaceAll(vv) /\ hv' = PlaceAll(hv)
             /\ UNCHANGED <<st, tsz, frk, k>>
Spec == Init /\ [][SizeStep \/ PlaceStep]_vars

Contract(info) ==
  /\ \A u \in Internal(st) : LET kd == Kids(st, u) IN
        /\ Disjoint(info[kd[1]].rect, info[kd[2]].rect)
        /\ Inside(info[kd[1]].rect, info[u].rect) /\ Inside(info[kd[2]].rect, info[u].rect)
BoxesInv == pc = "done" => Contract(vv) /\ Contract(hv)
TrunksInv == pc = "done" => \A u, v \in Nodes(st) : u < v =>
               Disjoint(vv[u].trunk, vv[v].trunk) /\ Disjoint(hv[u].trunk, hv[v].trunk)
MirrorInv == pc = "done" => \A u \in Nodes(st) :
               hv[u].rect = TransposeRect(vv[u].rect) /\ hv[u].trunk = TransposeRect(vv[u].trunk)
\* every trunk lies inside the box of its own subtree (what keeps trunks of
\* neighbouring subtrees apart); false in the pinned tree for wide trunks
TrunkInsideInv == pc = "done" => \A u \in Nodes(st) : Inside(vv[u].trunk, vv[u].rect) /\ Inside(hv[u].trunk, hv[u].rect)
ExactInv == \A u \in DOMAIN vv : vv[u].exact /\ hv[u].exact
=============================================================================
