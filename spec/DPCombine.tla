---------------------------- MODULE DPCombine ------------------------------
(***************************************************************************)
(* Entry.combine, and iteration of an entry into another one, over every   *)
(* pair of entry shapes the update machine can reach.  A reachable shape   *)
(* is a contract-satisfying (value, tags) pair of some offered set (TLC    *)
(* checks that in DPEntry), so the operands range over Allowed(..).        *)
(* One state per (policies, operands, combinator); the iteration order of  *)
(* the tag product is a Python set order, hence every order is checked.    *)
(***************************************************************************)
EXTENDS DPEntryOps

CONSTANTS Vals, Tags, WithInf

Cands == Vals \X (Tags \cup {NoTag})
InfCands(m) == IF WithInf THEN {Worst(m)} \X (Tags \cup {NoTag}) ELSE {}

ReachableEntries(m, r) ==
  UNION {Allowed(m, r, off) : off \in SUBSET (Cands \cup InfCands(m))}

Weights == [Tags \X Tags -> {0, 1}]
CombF(w, v1, t1, v2, t2) == IF IsInf(v1) THEN v1 ELSE IF IsInf(v2) THEN v2
                            ELSE v1 + v2 + w[<<t1, t2>>]

VARIABLES cm, cr, e1, e2, w, expect
vars == <<cm, cr, e1, e2, w, expect>>

Init ==
  /\ cm \in MPs
  /\ cr \in RPs
  /\ e1 \in ReachableEntries(cm, cr)
  /\ e2 \in ReachableEntries(cm, cr)
  /\ w \in Weights
  /\ expect = {}

Off == LET F(v1, t1, v2, t2) == CombF(w, v1, t1, v2, t2) IN CombineOffered(e1, e2, F)

\* What the contract allows combine to return (this is what the replay
\* against the real Entry.combine compares with).
Expected ==
  IF e1.tags = {} \/ e2.tags = {} THEN {Fresh(cm)} ELSE Allowed(cm, cr, Off)

Gen == /\ expect = {}
       /\ expect' = Expected
       /\ UNCHANGED <<cm, cr, e1, e2, w>>

Spec == Init /\ [][Gen]_vars

\* Code-shaped combine stays inside the contract for every iteration order.
CombineInv ==
  LET F(v1, t1, v2, t2) == CombF(w, v1, t1, v2, t2) IN
  \A order \in SetToSeqs(e1.tags \X e2.tags) :
     ImplCombine(cm, cr, e1, e2, F, order) \in Expected

\* Feeding the retained candidates of e2 into e1 (`entry.update(*other)`, the way
\* solvers pour combined entries into table cells) satisfies the contract for
\* what e1 stands for (its value, untagged, and its retained candidates)
\* together with the retained candidates of e2.
MergeInv ==
  \A order \in SetToSeqs(Retained(e2)) :
    ImplBatch(cm, cr, e1, order)
      \in Allowed(cm, cr, Retained(e1) \cup {<<e1.val, NoTag>>} \cup Retained(e2))
=============================================================================
