-------------------------------- MODULE THL --------------------------------
(***************************************************************************)
(* General DTL reconciliation (compute/reconciliation.py: reconcile_thl,   *)
(* reconcile_lca; compute/exhaustive.py) against the event model of        *)
(* Events.tla.                                                             *)
(*                                                                         *)
(* L0/L1 live in Events.tla.  L2 below is the recurrence *as the code      *)
(* organises it*: per-child aggregated minima (ltl, rtl, ltr, rtr for the  *)
(* speciation case; ltc, rtc, lts, rts for duplication / transfer), the    *)
(* three combinators, tag retention with ALL semantics, decoding by        *)
(* products of child decodings and the final re-ranking with the           *)
(* evaluator.  The step-wise specification fills the table one object      *)
(* node per action and TLC compares every filled row with L1, and the      *)
(* final result with L0.  Three constants reproduce the defects of the     *)
(* pinned tree (DESIGN.md section 9): LossAfterMin (D3), NoSpeCost (D2),   *)
(* RootOnlyDecode (D1).                                                    *)
(***************************************************************************)
EXTENDS Events

CONSTANTS LossAfterMin, NoSpeCost, RootOnlyDecode

(***************************************************************************)
(* Entries with ALL retention: [v |-> value, t |-> set of tags]            *)
(***************************************************************************)
Empty == [v |-> Inf, t |-> {}]
Upd(e, v, tag) == IF v = e.v THEN [e EXCEPT !.t = @ \cup {tag}]
                  ELSE IF v < e.v THEN [v |-> v, t |-> {tag}] ELSE e
AggOver(S, Val(_)) == FoldLeft(LAMBDA e, s : Upd(e, Val(s), s), Empty, SetToSeq(S))
\* product of the retained tags of two entries, F gives the combined value
Comb(e1, e2, F(_, _, _, _)) ==
  FoldLeft(LAMBDA e, p : Upd(e, F(e1.v, p[1], e2.v, p[2]), p), Empty, SetToSeq(e1.t \X e2.t))
Merge(e1, e2) == IF e1.v < e2.v THEN e1 ELSE IF e2.v < e1.v THEN e2
                 ELSE [v |-> e1.v, t |-> e1.t \cup e2.t]

(***************************************************************************)
(* One cell of the table: object node k placed in species s.               *)
(***************************************************************************)
Cell(ot, I, c, prev, k, s) ==
  LET l == Left(ot, k)
      r == Right(ot, k)
      tl == prev[l]
      tr == prev[r]
      ch == Children(I.par, s)
      \* distance-dependent loss terms: inside the aggregated candidates in the
      \* repaired code, added after minimisation in the original (D3)
      lossd(x) == IF LossAfterMin THEN 0 ELSE c.floss * I.dist[s][x]
      sl(x) == IF LossAfterMin THEN 0 ELSE c.floss * (I.dist[s][x] - 1)
      speE == IF ch = {} THEN Empty ELSE
        LET ls == s + 1
            rs == CHOOSE v \in ch : v # s + 1
            ltl == AggOver(I.desc[ls], LAMBDA x : Add(tl[x].v, sl(x)))
            rtl == AggOver(I.desc[ls], LAMBDA x : Add(tr[x].v, sl(x)))
            ltr == AggOver(I.desc[rs], LAMBDA x : Add(tl[x].v, sl(x)))
            rtr == AggOver(I.desc[rs], LAMBDA x : Add(tr[x].v, sl(x)))
            spe(v1, a, v2, b) ==
              Add3(IF NoSpeCost THEN 0 ELSE c.spe, Add(v1, v2),
                   IF LossAfterMin THEN c.floss * (I.dist[s][a] + I.dist[s][b] - 2) ELSE 0)
        IN Merge(Comb(ltl, rtr, spe), Comb(ltr, rtl, spe))
      sepS == {x \in 1..I.n : ~IsAnc(I, s, x) /\ ~IsAnc(I, x, s)}
      ltc == AggOver(I.desc[s], LAMBDA x : Add(tl[x].v, lossd(x)))
      rtc == AggOver(I.desc[s], LAMBDA x : Add(tr[x].v, lossd(x)))
      lts == AggOver(sepS, LAMBDA x : tl[x].v)
      rts == AggOver(sepS, LAMBDA x : tr[x].v)
      dup(v1, a, v2, b) == Add3(c.dup, Add(v1, v2),
                                IF LossAfterMin THEN c.floss * (I.dist[s][a] + I.dist[s][b]) ELSE 0)
      \* left transferred, right conserved / left conserved, right transferred
      hgr(v1, a, v2, b) == Add3(c.hgt, Add(v1, v2), IF LossAfterMin THEN c.floss * I.dist[s][b] ELSE 0)
      hgl(v1, a, v2, b) == Add3(c.hgt, Add(v1, v2), IF LossAfterMin THEN c.floss * I.dist[s][a] ELSE 0)
      all == Merge(speE, Merge(Comb(ltc, rtc, dup), Merge(Comb(lts, rtc, hgr), Comb(ltc, rts, hgl))))
  IN IF all.v >= Inf THEN Empty ELSE all   \* a cell is never materialised by infinite candidates

Row(ot, I, lm, c, prev, k) ==
  IF IsLeaf(ot, k) THEN [s \in 1..I.n |-> IF s = lm[k] THEN [v |-> 0, t |-> {}] ELSE Empty]
  ELSE [s \in 1..I.n |-> Cell(ot, I, c, prev, k, s)]

L2Table(ot, I, lm, c) ==
  FoldLeft(LAMBDA acc, k : (k :> Row(ot, I, lm, c, acc, k)) @@ acc, <<>>, BottomUp(ot))

\* decoding: every mapping of the subtree of u reachable through retained tags
RECURSIVE Decode(_, _, _, _)
Decode(ot, T, u, s) ==
  IF IsLeaf(ot, u) THEN (IF T[u][s].v < Inf \/ RootOnlyDecode THEN {(u :> s)} ELSE {})
  ELSE IF T[u][s].t = {} /\ RootOnlyDecode THEN {(u :> s)}
  ELSE UNION {{(u :> s) @@ ml @@ mr : ml \in Decode(ot, T, Left(ot, u), p[1]),
                                      mr \in Decode(ot, T, Right(ot, u), p[2])} : p \in T[u][s].t}

L2Decoded(ot, I, T) == UNION {Decode(ot, T, 1, s) : s \in 1..I.n}

\* final ranking of the decoded candidates with the evaluator (RecCost)
L2Result(ot, I, lm, c, D) ==
  LET total == {m \in D : DOMAIN m = Nodes(ot)}
      pairs == {<<m, RecCost(ot, I, c, m)>> : m \in total}
  IN [min |-> MinOf(pairs), opt |-> OptOf(pairs), partial |-> D \ total]

(***************************************************************************)
(* Inputs and expectations                                                 *)
(***************************************************************************)
CONSTANTS Inputs,     \* set of records [ot, st, lm, c]
          SpShapes,   \* the species tree shapes occurring in Inputs
          ObShapes    \* the object tree shapes occurring in Inputs

\* ancestry tables, one per shape, evaluated once (constant level)
SpInfo == [st \in SpShapes |-> Info(st)]
ObInfo == [ot \in ObShapes |-> Info(ot)]

\* what the properties allow, from L0 (explicit enumeration)
Expected(inp) ==
  LET I == SpInfo[inp.st]
      ranked == Ranked(inp.ot, I, inp.lm, inp.c)
      lca == LcaMap(inp.ot, ObInfo[inp.ot], I, inp.lm)
  IN [min |-> MinOf(ranked), opt |-> OptOf(ranked), ranked |-> ranked,
      lca |-> lca, lcacost |-> RecCost(inp.ot, I, inp.c, lca)]

\* the same from L1 (Bellman), for inputs beyond the reach of enumeration
ExpectedL1(inp) ==
  LET I == SpInfo[inp.st]
      T == L1Table(inp.ot, I, inp.lm, inp.c)
  IN [min |-> L1Min(inp.ot, I, T), opt |-> L1Opt(inp.ot, I, inp.c, T)]

VARIABLES input, pc, k, table, dec, got, expect
vars == <<input, pc, k, table, dec, got, expect>>

(***************************************************************************)
(* SpecGen: generation of cases for the replay into the code (E2).         *)
(***************************************************************************)
InitGen == /\ input \in Inputs /\ pc = "gen" /\ k = 0 /\ table = <<>> /\ dec = {}
           /\ got = <<>> /\ expect = <<>>
Gen == /\ pc = "gen" /\ pc' = "done" /\ expect' = Expected(input)
       /\ UNCHANGED <<input, k, table, dec, got>>
SpecGen == InitGen /\ [][Gen]_vars

\* L1 agrees with L0 on every generated input (checked where L0 is computed)
L1EqualsL0 == pc = "done" =>
  LET e1 == ExpectedL1(input) IN e1.min = expect.min /\ e1.opt = expect.opt

\* model facts used by C07 and C10, vetted on the specification itself
LcaFacts == pc = "done" =>
  /\ Valid(input.ot, SpInfo[input.st], input.lm, expect.lca)
  /\ expect.min <= expect.lcacost
  /\ (input.c.hgt >= Inf /\ input.c.spe = 0) =>
       /\ expect.lcacost = expect.min
       /\ input.c.floss > 0 => expect.opt = {expect.lca}

(***************************************************************************)
(* SpecEval: every total mapping (valid or not) with the event of every    *)
(* node and its cost, for the evaluator property (C06).                    *)
(***************************************************************************)
EvalExpected(inp) ==
  LET I == SpInfo[inp.st] IN
  {[m |-> m, ev |-> [u \in Nodes(inp.ot) |-> EventAt(inp.ot, I, m, u)], cost |-> RecCost(inp.ot, I, inp.c, m)] :
     m \in AllMappings(inp.ot, I.n, inp.lm)}
GenEval == /\ pc = "gen" /\ pc' = "done" /\ expect' = EvalExpected(input)
           /\ UNCHANGED <<input, k, table, dec, got>>
SpecEval == InitGen /\ [][GenEval]_vars
\* the cost is infinite exactly when some event is invalid or costs infinitely much
EvalInv == pc = "done" => \A r \in expect :
  (r.cost >= Inf) <=> (\E u \in Nodes(input.ot) : r.ev[u] = "X" \/ (r.ev[u] \in {"TL", "TR"} /\ input.c.hgt >= Inf))

(***************************************************************************)
(* SpecSteps: the algorithm as a state machine (E1).                       *)
(*   start -> fill (one object node per step, bottom-up) -> decode -> rank *)
(***************************************************************************)
InitSteps == /\ input \in Inputs /\ pc = "start" /\ k = 0 /\ table = <<>> /\ dec = {}
             /\ got = <<>> /\ expect = <<>>
Brute == /\ pc = "start" /\ pc' = "fill" /\ expect' = Expected(input)
         /\ k' = Len(input.ot)
         /\ UNCHANGED <<input, table, dec, got>>
FillNode == /\ pc = "fill" /\ k >= 1
            /\ table' = (k :> Row(input.ot, SpInfo[input.st], input.lm, input.c, table, k)) @@ table
            /\ k' = k - 1
            /\ pc' = IF k = 1 THEN "decode" ELSE "fill"
            /\ UNCHANGED <<input, dec, got, expect>>
DecodeAll == /\ pc = "decode" /\ pc' = "rank"
             /\ dec' = L2Decoded(input.ot, SpInfo[input.st], table)
             /\ UNCHANGED <<input, k, table, got, expect>>
Rank == /\ pc = "rank" /\ pc' = "done"
        /\ got' = L2Result(input.ot, SpInfo[input.st], input.lm, input.c, dec)
        /\ UNCHANGED <<input, k, table, dec, expect>>
SpecSteps == InitSteps /\ [][Brute \/ FillNode \/ DecodeAll \/ Rank]_vars

\* every filled row holds the sub-problem optimum (L1) -- recomputed per row
CellInv == (pc = "fill" /\ k < Len(input.ot)) =>
  LET I == SpInfo[input.st]
      T1 == L1Table(input.ot, I, input.lm, input.c)
  IN \A s \in 1..I.n : table[k + 1][s].v = T1[k + 1][s]

ResultInv == pc = "done" =>
  /\ got.partial = {}
  /\ got.min = expect.min
  /\ got.opt = expect.opt
  /\ \A m \in got.opt : Valid(input.ot, SpInfo[input.st], input.lm, m)
=============================================================================
