------------------------------ MODULE Toposort -----------------------------
(***************************************************************************)
(* toposort_all as a state machine: the recursion of _toposort_all_bt with *)
(* an explicit stack of frames, the shared in-degree table that is         *)
(* decremented before and restored after every recursive call, the result  *)
(* lists handed back to the caller, and the final length test / reversal.  *)
(* The iteration order over a set of start vertices is not fixed by        *)
(* Python: IterOrder = "any" lets TLC explore every order, "asc" takes the *)
(* smallest vertex first (one representative, for the larger bound).       *)
(***************************************************************************)
EXTENDS ToposortOps

CONSTANTS Graphs,       \* set of graphs explored
          IterOrder,    \* "asc" | "any"
          NoRestore     \* TRUE: the in-degrees are not restored after the recursion (self-test mutant)

VARIABLES g, stack, indeg, ret, final, pc
vars == <<g, stack, indeg, ret, final, pc>>

NoRet == [has |-> FALSE, val |-> <<>>]
Give(v) == [has |-> TRUE, val |-> v]
Frame(S) == [starts |-> S, todo |-> S, cur |-> 0, res |-> <<>>]
Top == stack[Len(stack)]
Path == {stack[i].cur : i \in DOMAIN stack} \ {0}

Init == /\ g \in Graphs
        /\ stack = <<>> /\ indeg = <<>> /\ ret = NoRet /\ final = <<>>
        /\ pc = "init"

Start == /\ pc = "init"
         /\ indeg' = InDeg(g)
         /\ stack' = <<Frame({v \in Verts(g) : Preds(g, v) = {}})>>
         /\ pc' = "run"
         /\ UNCHANGED <<g, ret, final>>

\* `if not starts: return [[]]`
Base == /\ pc = "run" /\ stack # <<>> /\ ~ret.has
        /\ Top.starts = {}
        /\ ret' = Give(<< <<>> >>)
        /\ stack' = SubSeq(stack, 1, Len(stack) - 1)
        /\ UNCHANGED <<g, indeg, final, pc>>

\* next iteration of `for node_from in starts`: decrement, recurse
Pick(v) ==
  /\ pc = "run" /\ stack # <<>> /\ ~ret.has
  /\ Top.cur = 0 /\ v \in Top.todo
  /\ IterOrder = "asc" => v = Min(Top.todo)
  /\ LET ind2 == [x \in Verts(g) |-> IF x \in Succs(g, v) THEN indeg[x] - 1 ELSE indeg[x]]
         next == (Top.starts \ {v}) \cup {x \in Succs(g, v) : ind2[x] = 0}
     IN /\ indeg' = ind2
        /\ stack' = Append([stack EXCEPT ![Len(stack)].cur = v, ![Len(stack)].todo = @ \ {v}],
                           Frame(next))
  /\ UNCHANGED <<g, ret, final, pc>>

\* the recursive call returned: append node_from to every sub-result, restore
Resume ==
  /\ pc = "run" /\ stack # <<>> /\ ret.has
  /\ LET v == Top.cur
         got == [i \in DOMAIN ret.val |-> Append(ret.val[i], v)]
     IN /\ stack' = [stack EXCEPT ![Len(stack)].cur = 0, ![Len(stack)].res = @ \o got]
        /\ indeg' = IF NoRestore THEN indeg
                    ELSE [x \in Verts(g) |-> IF x \in Succs(g, v) THEN indeg[x] + 1 ELSE indeg[x]]
  /\ ret' = NoRet
  /\ UNCHANGED <<g, final, pc>>

\* the loop of a frame is over: return its results
Return == /\ pc = "run" /\ stack # <<>> /\ ~ret.has
          /\ Top.starts # {} /\ Top.cur = 0 /\ Top.todo = {}
          /\ ret' = Give(Top.res)
          /\ stack' = SubSeq(stack, 1, Len(stack) - 1)
          /\ UNCHANGED <<g, indeg, final, pc>>

\* back in toposort_all: length test and reversal
Finish == /\ pc = "run" /\ stack = <<>> /\ ret.has
          /\ final' = IF \E i \in DOMAIN ret.val : Len(ret.val[i]) # g.n THEN <<>>
                      ELSE [i \in DOMAIN ret.val |-> Reverse(ret.val[i])]
          /\ pc' = "done"
          /\ UNCHANGED <<g, stack, indeg, ret>>

Next == Start \/ Base \/ (\E v \in Verts(g) : Pick(v)) \/ Resume \/ Return \/ Finish
Spec == Init /\ [][Next]_vars

\* every ordering exactly once, nothing else
ResultInv == pc = "done" =>
  /\ {final[i] : i \in DOMAIN final} = AllOrders(g)
  /\ Len(final) = Cardinality(AllOrders(g))
RestoreInv == pc = "done" => indeg = InDeg(g)
\* the shared table always counts the predecessors outside the current path,
\* and the start set of the running frame is exactly the free vertices
IndegInv == (pc = "run" /\ ~ret.has) =>
  /\ \A v \in Verts(g) : indeg[v] = Cardinality(Preds(g, v) \ Path)
  /\ stack # <<>> /\ Top.cur = 0 => Top.starts = {v \in Verts(g) \ Path : indeg[v] = 0}
\* partial results of a frame are orderings of what is still to be placed, reversed
FrameInv == pc = "run" =>
  \A k \in DOMAIN stack : \A i \in DOMAIN stack[k].res :
    LET placed == {stack[j].cur : j \in 1..(k - 1)}
        r == stack[k].res[i]
    IN {r[x] : x \in DOMAIN r} \cap placed = {}
=============================================================================
