------------------------------ MODULE Branches ------------------------------
(***************************************************************************)
(* The loop of _layout_branches as a machine (one item per step) over the  *)
(* operators of BranchesOps, with its lemmas as invariants.                *)
(***************************************************************************)
EXTENDS BranchesOps

(* The machine: one item per step, lemmas as invariants.                   *)
CONSTANTS Sizes, MaxLen, Pad, Gap
VARIABLES items, i, st, o
vars == <<items, i, st, o>>

ItemAt(p) ==
  {[k |-> k, w |-> w, h |-> h, l |-> 0, r |-> 0] : k \in {"L", "S", "X"}, w \in Sizes, h \in Sizes}
  \cup {[k |-> "T", w |-> w, h |-> h, l |-> l, r |-> 0] : w \in Sizes, h \in Sizes, l \in 1..(p - 1)}
  \cup UNION {{[k |-> "D", w |-> w, h |-> h, l |-> l, r |-> r] : w \in Sizes, h \in Sizes, r \in (1..(p - 1)) \ {l}} :
                l \in 1..(p - 1)}

Init == /\ items = <<>> /\ i = 0 /\ o \in {"V", "H"} /\ st = Start(Pad)
Grow == /\ Len(items) < MaxLen
        /\ \E it \in ItemAt(Len(items) + 1) :
             /\ items' = Append(items, it)
             /\ st' = Step(st, it, Pad, Gap, o)
        /\ i' = i + 1 /\ UNCHANGED o
Next == Grow
Spec == Init /\ [][Next]_vars

Stacked == {p \in DOMAIN items : items[p].k \in {"L", "S", "X"}}
\* nodes on the stack are side by side across the trunk, at least a gap apart
StackInv == \A p, q \in Stacked : p < q =>
              st.rs[q].a + st.rs[q].ea + Gap <= st.rs[p].a
\* extant objects end on the fork line, speciations and losses start below it
\* one after the other, a gap apart
SequenceInv ==
  /\ \A p \in DOMAIN items : items[p].k = "L" => st.rs[p].s + st.rs[p].es = 0
  /\ \A p \in Stacked : items[p].k # "L" => st.rs[p].s >= Pad
  /\ \A p, q \in Stacked : p < q /\ items[p].k # "L" /\ items[q].k # "L" =>
       st.rs[p].s + st.rs[p].es + Gap <= st.rs[q].s
\* a duplication or transfer node ends a padding above its copies and above the fork line
ParentInv == \A p \in DOMAIN items :
  /\ items[p].k = "D" => /\ st.rs[p].s + st.rs[p].es + Pad <= Min2(st.rs[items[p].l].s, st.rs[items[p].r].s)
                         /\ st.rs[p].s + st.rs[p].es <= 0
  /\ items[p].k = "T" => /\ st.rs[p].s + st.rs[p].es + Pad <= st.rs[items[p].l].s
                         /\ st.rs[p].s + st.rs[p].es <= 0
\* after the final shift everything lies a padding inside the trunk's far side, and something touches it
ShiftInv == LET n == Shifted(st.rs, Pad) IN
  /\ \A p \in DOMAIN n : n[p].a + n[p].ea <= -Pad
  /\ n # <<>> => \E p \in DOMAIN n : n[p].a + n[p].ea = -Pad
\* the horizontal layout is the transpose of the vertical one with widths and heights exchanged
MirrorInv ==
  LET other == IF o = "V" THEN "H" ELSE "V"
      swapped == [p \in DOMAIN items |-> SwapItem(items[p])]
      here == LayoutBranches(items, Pad, Gap, o)
      there == LayoutBranches(swapped, Pad, Gap, other)
  IN \A p \in DOMAIN items : there[p] = Transpose(here[p])
\* the fold and the machine agree
FoldInv == Neutral(items, Pad, Gap, o) = Shifted(st.rs, Pad)
=============================================================================
