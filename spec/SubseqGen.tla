------------------------------ MODULE SubseqGen ----------------------------
(***************************************************************************)
(* Generation of expectations for the replay into the code (E2): one state *)
(* per parent mask carrying the whole row of segment distances, and one    *)
(* state per parent sequence carrying its mask -> subsequence table.       *)
(***************************************************************************)
EXTENDS SubseqOps
CONSTANTS NBits,      \* masks range over 0..2^NBits-1
          Parents     \* parent sequences (distinct elements) for the mask identities
Masks == 0..(2 ^ NBits - 1)

VARIABLES key, val
vars == <<key, val>>

GenInit == key \in Masks /\ val = <<>>
GenNext == /\ val = <<>>
           /\ val' = [t |-> [ch \in 1..(2 ^ NBits - 1) |-> SegDistStarts(ch, key, TRUE)],
                      f |-> [ch \in 1..(2 ^ NBits - 1) |-> SegDistStarts(ch, key, FALSE)]]
           /\ UNCHANGED key
SpecGen == GenInit /\ [][GenNext]_vars

\* masks <-> subsequences
SeqInit == key \in Parents /\ val = <<>>
SeqNext == /\ val = <<>>
           /\ val' = [m \in 0..Complete(key) |-> SubseqOf(m, key)]
           /\ UNCHANGED key
SpecSeq == SeqInit /\ [][SeqNext]_vars
\* identities of the property, on the specification: both directions, and the
\* code-shaped loops compute the declarative functions
SeqInv == val # <<>> =>
  \A m \in 0..Complete(key) :
    /\ MaskOf(val[m], key) = m
    /\ ImplMaskOf(val[m], key) = m
    /\ ImplSubseqOf(m, key, 1) = val[m]
    /\ Len(val[m]) = Cardinality(BitsOf(m))
=============================================================================
