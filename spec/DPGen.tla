------------------------------- MODULE DPGen -------------------------------
(***************************************************************************)
(* Generators for replaying the DPEntry specification into the real        *)
(* Entry / Table classes (direction specification -> code).                *)
(*                                                                         *)
(* SpecTrans: one state per transition of the contract machine: a          *)
(*   pre-state (any entry the contract allows for an offered set), one     *)
(*   candidate, and the set of entries the contract allows afterwards.     *)
(* SpecHist: every update history up to MaxHist with the set of entries    *)
(*   the contract allows at its end (the driver replays it in every        *)
(*   batching, on standalone entries and on table cells).                  *)
(***************************************************************************)
EXTENDS DPEntryOps

CONSTANTS Vals, Tags, MaxHist, WithInf

Cands(m) == (Vals \X (Tags \cup {NoTag}))
            \cup (IF WithInf THEN {Worst(m)} \X (Tags \cup {NoTag}) ELSE {})

VARIABLES mp, rp, pre, off, hist, allowed
vars == <<mp, rp, pre, off, hist, allowed>>

\* ---- transitions -------------------------------------------------------
InitTrans ==
  /\ mp \in MPs
  /\ rp \in RPs
  /\ off \in SUBSET Cands(mp)
  /\ pre \in Allowed(mp, rp, off)
  /\ hist \in {<<c>> : c \in Cands(mp)}
  /\ allowed = {}

GenTrans ==
  /\ allowed = {}
  /\ allowed' = Allowed(mp, rp, off \cup {hist[1]})
  /\ UNCHANGED <<mp, rp, pre, off, hist>>

SpecTrans == InitTrans /\ [][GenTrans]_vars

\* The code-shaped step lands inside the contract from every contract state.
TransInv == allowed # {} => ImplStep(mp, rp, pre, hist[1]) \in allowed

\* ---- histories ---------------------------------------------------------
InitHist ==
  /\ mp \in MPs
  /\ rp \in RPs
  /\ off = {}
  /\ pre = Fresh(mp)
  /\ hist = <<>>
  /\ allowed = Allowed(mp, rp, {})

Extend(c) ==
  /\ Len(hist) < MaxHist
  /\ hist' = Append(hist, c)
  /\ off' = off \cup {c}
  /\ allowed' = Allowed(mp, rp, off \cup {c})
  /\ UNCHANGED <<mp, rp, pre>>

SpecHist == InitHist /\ [][\E c \in Cands(mp) : Extend(c)]_vars

HistInv == ImplBatch(mp, rp, pre, hist) \in allowed
=============================================================================
