--------------------------------- MODULE Meta ------------------------------
(***************************************************************************)
(* Relations between runs (properties C09 and C10), first vetted on the    *)
(* specification itself: for every input of a bounded domain TLC computes  *)
(* the minimum and the optimal set of each model (plain DTL, ordered,      *)
(* unordered, base variants, LCA reconciliation) for the input and for its *)
(* transformed presentations, and checks the relations as invariants.  A   *)
(* relation that survives here is then applied to recorded runs of the     *)
(* real code (TraceMeta.tla).                                              *)
(*                                                                         *)
(* Solutions are compared through clades (sets of original leaf ids), so   *)
(* that differently presented inputs are comparable.                       *)
(***************************************************************************)
EXTENDS Events

O == INSTANCE OrderedOps WITH ScaleBeforeTest <- FALSE
U == INSTANCE UnorderedOps WITH NoLcaLcaCharge <- FALSE

CONSTANTS Inputs, SpShapes, ObShapes

(***************************************************************************)
(* Transformations of the presentation                                     *)
(***************************************************************************)
\* pre-order of t when the children of every node are visited in reverse order
RECURSIVE MirrorOrder(_, _)
MirrorOrder(t, u) ==
  LET ch == SetToSortSeq(Children(t, u), LAMBDA a, b : a > b)
  IN <<u>> \o FoldLeft(LAMBDA acc, c : acc \o MirrorOrder(t, c), <<>>, ch)
PosOf(seq, x) == CHOOSE i \in DOMAIN seq : seq[i] = x
\* [t |-> mirrored parent array, old |-> new index -> old index]
Mirror(t) ==
  LET ord == MirrorOrder(t, 1)
  IN [t |-> [i \in DOMAIN ord |-> IF t[ord[i]] = 0 THEN 0 ELSE PosOf(ord, t[ord[i]])], old |-> ord]
Ident(t) == [t |-> t, old |-> [i \in DOMAIN t |-> i]]
\* a new root species whose children are the old root and a leaf carrying nothing
OutgroupRight(st) == [t |-> <<0>> \o [i \in DOMAIN st |-> IF st[i] = 0 THEN 1 ELSE st[i] + 1] \o <<1>>,
                      old |-> <<0>> \o [i \in DOMAIN st |-> i] \o <<0>>]
OutgroupLeft(st) == [t |-> <<0, 1>> \o [i \in DOMAIN st |-> IF st[i] = 0 THEN 1 ELSE st[i] + 2],
                     old |-> <<0, 0>> \o [i \in DOMAIN st |-> i]]
NewOf(T, x) == CHOOSE i \in DOMAIN T.old : T.old[i] = x

\* the input presented with transformed trees TO / TS (leaf data follows its leaf)
Present(inp, TO, TS) ==
  [ot |-> TO.t, st |-> TS.t,
   lm |-> [i \in DOMAIN TO.t |-> IF inp.lm[TO.old[i]] = 0 THEN 0 ELSE NewOf(TS, inp.lm[TO.old[i]])],
   c |-> inp.c,
   syn |-> [i \in DOMAIN TO.t |-> inp.syn[TO.old[i]]],
   root |-> inp.root]
Scaled(inp, k) == [inp EXCEPT !.c = [spe |-> k * @.spe, dup |-> k * @.dup, hgt |-> Mul(k, @.hgt),
                                     floss |-> k * @.floss, sloss |-> k * @.sloss]]
RenameFams(inp, perm) == [inp EXCEPT !.syn = [u \in DOMAIN inp.syn |-> [i \in DOMAIN inp.syn[u] |-> perm[inp.syn[u][i]]]],
                                     !.root = [i \in DOMAIN inp.root |-> perm[inp.root[i]]]]

(***************************************************************************)
(* Results projected to clades                                             *)
(***************************************************************************)
OrigClade(t, I, old, u) == {old[w] : w \in Clade(t, I, u)} \ {0}
\* a plain reconciliation as a set of <<object clade, species clade>>
ProjMap(inp, TO, TS, m) ==
  LET OI == Info(inp.ot)
      I == Info(inp.st)
  IN {<<OrigClade(inp.ot, OI, TO.old, u), OrigClade(inp.st, I, TS.old, m[u])>> : u \in Nodes(inp.ot)}
ProjSol(inp, TO, TS, s) ==
  LET OI == Info(inp.ot)
      I == Info(inp.st)
  IN {<<OrigClade(inp.ot, OI, TO.old, u), OrigClade(inp.st, I, TS.old, s.m[u]), s.lab[u]>> : u \in Nodes(inp.ot)}

\* minimum and projected optimal set of every model on one presentation
Results(inp, TO, TS) ==
  LET I == Info(inp.st)
      OI == Info(inp.ot)
      T == L1Table(inp.ot, I, inp.lm, inp.c)
      lca == LcaMap(inp.ot, OI, I, inp.lm)
      oe == O!OrdExpected(inp, I, OI, FALSE)
      ob == O!OrdExpected(inp, I, OI, TRUE)
      ue == U!UnExpected(inp, I, OI, FALSE, 1000)
      ub == U!UnExpected(inp, I, OI, TRUE, 1000)
  IN [dtl |-> [min |-> L1Min(inp.ot, I, T), opt |-> {ProjMap(inp, TO, TS, m) : m \in L1Opt(inp.ot, I, inp.c, T)}],
      lca |-> [min |-> RecCost(inp.ot, I, inp.c, lca), opt |-> {ProjMap(inp, TO, TS, lca)}],
      oe |-> [min |-> oe.min, opt |-> {ProjSol(inp, TO, TS, s) : s \in oe.opt}],
      ob |-> [min |-> ob.min, opt |-> {ProjSol(inp, TO, TS, s) : s \in ob.opt}],
      ue |-> [min |-> ue.min, opt |-> {ProjSol(inp, TO, TS, s) : s \in ue.opt}],
      ub |-> [min |-> ub.min, opt |-> {ProjSol(inp, TO, TS, s) : s \in ub.opt}]]
Models == {"dtl", "lca", "oe", "ob", "ue", "ub"}

VARIABLES input, pc, base, alt
vars == <<input, pc, base, alt>>

Init == input \in Inputs /\ pc = "base" /\ base = <<>> /\ alt = <<>>
Base == /\ pc = "base" /\ pc' = "alt"
        /\ base' = Results(input, Ident(input.ot), Ident(input.st))
        /\ UNCHANGED <<input, alt>>
\* one transformed presentation per step, chosen by TLC
Variants == {"mirrorO", "mirrorS", "mirrorBoth", "outR", "outL", "scale2", "scale3", "raise", "swapfam"}
Raised(inp, f) == [inp EXCEPT !.c[f] = IF @ >= Inf THEN @ ELSE @ + 1]
Alt(v, f) ==
  /\ pc = "alt" /\ pc' = "done"
  /\ alt' = [v |-> v, f |-> f, res |->
       CASE v = "mirrorO" -> LET TO == Mirror(input.ot) TS == Ident(input.st) IN Results(Present(input, TO, TS), TO, TS)
         [] v = "mirrorS" -> LET TO == Ident(input.ot) TS == Mirror(input.st) IN Results(Present(input, TO, TS), TO, TS)
         [] v = "mirrorBoth" -> LET TO == Mirror(input.ot) TS == Mirror(input.st) IN Results(Present(input, TO, TS), TO, TS)
         [] v = "outR" -> LET TO == Ident(input.ot) TS == OutgroupRight(input.st) IN Results(Present(input, TO, TS), TO, TS)
         [] v = "outL" -> LET TO == Ident(input.ot) TS == OutgroupLeft(input.st) IN Results(Present(input, TO, TS), TO, TS)
         [] v = "scale2" -> Results(Scaled(input, 2), Ident(input.ot), Ident(input.st))
         [] v = "scale3" -> Results(Scaled(input, 3), Ident(input.ot), Ident(input.st))
         [] v = "raise" -> Results(Raised(input, f), Ident(input.ot), Ident(input.st))
         [] v = "swapfam" -> Results(RenameFams(input, <<2, 1, 3, 4>>), Ident(input.ot), Ident(input.st))]
  /\ UNCHANGED <<input, base>>
Next == Base \/ \E v \in Variants : \E f \in {"spe", "dup", "hgt", "floss", "sloss"} :
                  (v = "raise" \/ f = "spe") /\ Alt(v, f)
Spec == Init /\ [][Next]_vars

SwapFam(S) == {{<<x[1], x[2], [i \in DOMAIN x[3] |-> <<2, 1, 3, 4>>[x[3][i]]]>> : x \in sol} : sol \in S}
SortLab(S) == {{<<x[1], x[2], SetToSortSeq({x[3][i] : i \in DOMAIN x[3]}, LAMBDA a, b : a < b)>> : x \in sol} : sol \in S}

(***************************************************************************)
(* C09: presentation independence and response to costs                    *)
(***************************************************************************)
PresentationInv == pc = "done" /\ alt.v \in {"mirrorO", "mirrorS", "mirrorBoth"} =>
  \A k \in Models : alt.res[k].min = base[k].min /\ alt.res[k].opt = base[k].opt
\* an outgroup carrying nothing never changes the minimum; with a positive loss
\* cost it does not change the optimal set either
OutgroupInv == pc = "done" /\ alt.v \in {"outR", "outL"} =>
  \A k \in Models : /\ alt.res[k].min = base[k].min
                    /\ input.c.floss > 0 => alt.res[k].opt = base[k].opt
ScaleInv == pc = "done" /\ alt.v \in {"scale2", "scale3"} =>
  LET f == IF alt.v = "scale2" THEN 2 ELSE 3 IN
  \A k \in Models : alt.res[k].min = Mul(f, base[k].min) /\ alt.res[k].opt = base[k].opt
\* raising one unit cost never lowers the minimum (both vectors coherent)
MonotoneInv == pc = "done" /\ alt.v = "raise" /\ Coherent(input.c) /\ Coherent(Raised(input, alt.f).c) =>
  \A k \in Models : alt.res[k].min >= base[k].min
RenameInv == pc = "done" /\ alt.v = "swapfam" =>
  /\ \A k \in {"dtl", "lca"} : alt.res[k] = base[k]
  /\ \A k \in {"oe", "ob"} : alt.res[k].min = base[k].min /\ alt.res[k].opt = SwapFam(base[k].opt)
  /\ \A k \in {"ue", "ub"} : alt.res[k].min = base[k].min /\ alt.res[k].opt = SortLab(SwapFam(base[k].opt))

(***************************************************************************)
(* C10: agreement between the models                                       *)
(***************************************************************************)
SingleFamily(inp) == \A u \in Leaves(inp.ot) : inp.syn[u] = <<1>>
AgreeInv == pc # "base" =>
  /\ base.oe.min <= base.ob.min
  /\ base.ue.min <= base.ub.min
  /\ base.ue.min <= base.oe.min
  /\ base.ub.min <= base.ob.min
  /\ base.dtl.min <= base.lca.min
  /\ input.c.hgt >= Inf => base.dtl.min = base.lca.min
  /\ SingleFamily(input) => /\ base.oe.min = base.dtl.min /\ base.ue.min = base.dtl.min
                            /\ base.ob.min = base.lca.min /\ base.ub.min = base.lca.min
=============================================================================
