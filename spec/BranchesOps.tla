------------------------------ MODULE BranchesOps ------------------------------
(***************************************************************************)
(* Placement of the gene nodes inside one species (_layout_branches of     *)
(* render/layout.py).  The code writes the vertical and the horizontal     *)
(* case out separately; the specification has ONE orientation-neutral      *)
(* computation (extent across the trunk / extent along the sequence axis)  *)
(* and maps it to x/y at the end, so that the mirror clause of C14 holds   *)
(* by construction for every layout that agrees with it.                   *)
(*                                                                         *)
(* The branches of a species are processed in dictionary order; an item is *)
(*   [k |-> kind, w, h, l, r]                                              *)
(* with k in "L" (extant object), "S" (speciation), "X" (full loss), "D"   *)
(* (duplication, l and r the positions of its two copies, placed earlier)  *)
(* and "T" (transfer, l the position of the conserved copy).  Coordinates  *)
(* are integers (the driver scales by 4096, divisions are exact there).    *)
(*                                                                         *)
(* None of the twenty listed properties fixes these positions: the module  *)
(* extends the specification to this part of the system, its lemmas are    *)
(* checked by TLC, and the agreement of the code with it is reported as a  *)
(* drift figure in the evidence of C14, never as a violation.              *)
(***************************************************************************)
EXTENDS Integers, Sequences, FiniteSets, SequencesExt, TLC

CONSTANT ClampBug   \* TRUE: the horizontal duplication clamp uses the gap instead of the padding (a seeded change; refuted through MirrorInv)

Min2(a, b) == IF a <= b THEN a ELSE b
Min3(a, b, c) == Min2(a, Min2(b, c))

Across(it, o) == IF o = "V" THEN it.w ELSE it.h
Deep(it, o) == IF o = "V" THEN it.h ELSE it.w

\* neutral rectangle: a = position across, s = position along the sequence axis
NRect(a, s, ea, es) == [a |-> a, s |-> s, ea |-> ea, es |-> es]

\* one iteration of the loop over layout["branches"]
Step(st, it, pad, gap, o) ==
  LET ea == Across(it, o)
      es == Deep(it, o)
  IN CASE it.k = "L" ->
            LET a == st.na - ea IN
            [na |-> a - gap, ns |-> st.ns, rs |-> Append(st.rs, NRect(a, -es, ea, es))]
       [] it.k \in {"S", "X"} ->
            LET a == st.na - ea IN
            [na |-> a - gap, ns |-> st.ns + es + gap, rs |-> Append(st.rs, NRect(a, st.ns, ea, es))]
       [] it.k = "D" ->
            LET L == st.rs[it.l]
                R == st.rs[it.r]
                \* ((left.center + right.center).across - extent) / 2
                a == (2 * L.a + L.ea + 2 * R.a + R.ea - 2 * ea) \div 4
                s == Min3(IF ClampBug /\ o = "H" THEN gap ELSE pad, L.s, R.s) - pad - es
            IN [na |-> st.na, ns |-> st.ns, rs |-> Append(st.rs, NRect(a, s, ea, es))]
       [] it.k = "T" ->
            LET C == st.rs[it.l]
                a == (2 * C.a + C.ea - ea) \div 2
                s == Min2(pad, C.s) - pad - es
            IN [na |-> st.na, ns |-> st.ns, rs |-> Append(st.rs, NRect(a, s, ea, es))]

Start(pad) == [na |-> 0, ns |-> pad, rs |-> <<>>]

\* the final shift that makes room for the padding on the trunk's far side
Shifted(rs, pad) ==
  IF rs = <<>> THEN rs
  ELSE LET far == CHOOSE m \in {-(rs[i].a + rs[i].ea) : i \in DOMAIN rs} :
                    \A i \in DOMAIN rs : m <= -(rs[i].a + rs[i].ea)
       IN [i \in DOMAIN rs |-> [rs[i] EXCEPT !.a = @ + far - pad]]

Neutral(items, pad, gap, o) ==
  Shifted(FoldLeft(LAMBDA st, it : Step(st, it, pad, gap, o), Start(pad), items).rs, pad)

ToXY(r, o) == IF o = "V" THEN <<r.a, r.s, r.ea, r.es>> ELSE <<r.s, r.a, r.es, r.ea>>
LayoutBranches(items, pad, gap, o) ==
  LET n == Neutral(items, pad, gap, o) IN [i \in DOMAIN n |-> ToXY(n[i], o)]

SwapItem(it) == [it EXCEPT !.w = it.h, !.h = it.w]
Transpose(r) == <<r[2], r[1], r[4], r[3]>>

Kinds == {"L", "S", "X", "D", "T"}
=============================================================================
