------------------------------ MODULE Unordered ----------------------------
(* State-machine front end over UnorderedOps: generation of expectations and the
   code-shaped table filled one object node per action. *)
EXTENDS UnorderedOps

(***************************************************************************)
(* Model-checking front end                                                *)
(***************************************************************************)
CONSTANTS Inputs, SpShapes, ObShapes, Base, WithL0
SpInfo == [st \in SpShapes |-> Info(st)]
ObInfo == [ot \in ObShapes |-> Info(ot)]

VARIABLES input, pc, k, table, expect
vars == <<input, pc, k, table, expect>>

InitGen == /\ input \in Inputs /\ pc = "gen" /\ k = 0 /\ table = <<>> /\ expect = <<>>
Gen == /\ pc = "gen" /\ pc' = "done"
       /\ expect' = UnExpected(input, SpInfo[input.st], ObInfo[input.ot], Base, 1000)
       /\ UNCHANGED <<input, k, table>>
SpecGen == InitGen /\ [][Gen]_vars
L1EqualsL0 == (pc = "done" /\ WithL0) =>
  LET e0 == L0Expected(input, SpInfo[input.st], ObInfo[input.ot], Base)
  IN e0.min = expect.min /\ e0.mincanon = expect.mincanon /\ e0.opt = expect.opt
\* restricting the search to the two canonical labellings per node loses nothing
CanonLemma == pc = "done" => expect.min = expect.mincanon
OptValid == pc = "done" =>
  \A s \in expect.opt : /\ ValidUn(input, SpInfo[input.st], ObInfo[input.ot], s)
                        /\ Canonical(input, ObInfo[input.ot], s)
                        /\ CostUn(input, SpInfo[input.st], s) = expect.min

\* every valid solution (mapping x labelling) with its costs (C06)
EvalExpected(inp, I, OI) ==
  LET ot == inp.ot
      F == FInfo(ot, OI, inp.syn)
      labs == {lb \in [Nodes(ot) -> SUBSET F.used] : LabValidUn(inp, OI, lb)}
      sols == {[m |-> m, lab |-> [u \in Nodes(ot) |-> SortedSeq(lb[u])]] : m \in ValidMappings(ot, I, inp.lm), lb \in labs}
  IN {[sol |-> s, rcost |-> RecCost(ot, I, inp.c, s.m), lcost |-> LabCostUn(inp, I, s)] : s \in sols}
GenEval == /\ pc = "gen" /\ pc' = "done"
           /\ expect' = EvalExpected(input, SpInfo[input.st], ObInfo[input.ot])
           /\ UNCHANGED <<input, k, table>>
SpecEval == InitGen /\ [][GenEval]_vars

InitSteps == /\ input \in Inputs /\ pc = "fill" /\ k = Len(input.ot) /\ table = <<>> /\ expect = <<>>
FillNode == /\ pc = "fill" /\ k >= 1
            /\ table' = (k :> L2Row(input, SpInfo[input.st], FInfo(input.ot, ObInfo[input.ot], input.syn),
                                    LcaMap(input.ot, ObInfo[input.ot], SpInfo[input.st], input.lm),
                                    Base, table, k)) @@ table
            /\ k' = k - 1
            /\ pc' = IF k = 1 THEN "filled" ELSE "fill"
            /\ UNCHANGED <<input, expect>>
SpecSteps == InitSteps /\ [][FillNode]_vars
\* the LCA entry is the optimum with the required content, the INHERIT entry
\* the optimum with any larger content (they all cost the same)
CellInv == (k < Len(input.ot)) =>
  LET I == SpInfo[input.st]
      OI == ObInfo[input.ot]
      F == FInfo(input.ot, OI, input.syn)
      T1 == UnTable(input, I, F, LcaMap(input.ot, OI, I, input.lm), Base, FALSE)
      u == k + 1
  IN \A q \in DOMAIN T1[u] :
       T1[u][q].v = table[u][q[1]][IF q[2] = F.req[u] THEN "LCA" ELSE "INH"]
=============================================================================
