----------------------------- MODULE PipelineOps ----------------------------
(***************************************************************************)
(* One invocation of `superrec2 reconcile` as a state machine over an      *)
(* abstract document (cli/reconcile.py, model/reconciliation.py):          *)
(*   start -> read -> [labelled] -> solved -> dumped   |   rejected        *)
(* A case is [ot, onames, st, snames, alg, hassyn]: trees as parent arrays, *)
(* names as sequences of strings ("" = unnamed ancestor).                  *)
(* The contract on generated names is the README's: unnamed object /       *)
(* species ancestors become O<i> / S<i> with indices increasing in         *)
(* pre-order, existing names untouched, all names distinct.  LabelRule is  *)
(* the code-shaped rule of label_internal (smallest index, not below the   *)
(* previous one, whose name is not yet in the tree).                       *)
(***************************************************************************)
EXTENDS Trees

SuperAlgs == {"base_spfs", "ext_spfs", "base_uspfs", "superdtl"}
PlainAlgs == {"lca", "thl", "exh"}
Digits == <<"0", "1", "2", "3", "4", "5", "6", "7", "8", "9">>
RECURSIVE NatStr(_)
NatStr(n) == IF n < 10 THEN Digits[n + 1] ELSE NatStr(n \div 10) \o Digits[(n % 10) + 1]
FreshName(prefix, i) == prefix \o NatStr(i)
Unnamed(s) == s = "" \/ s = "NoName"

\* code-shaped: label_internal on one tree (names in pre-order = index order)
LabelRule(names, prefix) ==
  LET step(st, u) ==
        IF ~Unnamed(st.names[u]) THEN st
        ELSE LET taken == {st.names[v] : v \in DOMAIN st.names}
                 i == CHOOSE j \in st.next..(st.next + Len(names)) :
                        FreshName(prefix, j) \notin taken /\
                        \A h \in st.next..(j - 1) : FreshName(prefix, h) \in taken
             IN [names |-> [st.names EXCEPT ![u] = FreshName(prefix, i)], next |-> i]
  IN FoldLeft(step, [names |-> names, next |-> 0], [u \in DOMAIN names |-> u]).names

\* Species of a leaf inferred from its name (get_species_mapping): names are split
\* at underscores (lower-cased by the driver); the first proper prefix of the leaf
\* name that is the name of a species wins.  species: sequence of <<index, tokens>>.
InferSpecies(tokens, species) ==
  LET hit(i) == {k \in DOMAIN species : species[k][2] = SubSeq(tokens, 1, i)}
      I == {i \in 1..(Len(tokens) - 1) : hit(i) # {}}
  IN IF I = {} THEN 0
     ELSE LET i == CHOOSE x \in I : \A y \in I : x <= y
          IN species[CHOOSE k \in hit(i) : TRUE][1]

\* contract: what the README promises about the names written out
IndexOf(prefix, s) == CHOOSE i \in 0..(3 * 12) : s = FreshName(prefix, i)
IsFresh(prefix, s) == \E i \in 0..(3 * 12) : s = FreshName(prefix, i)
NamesOK(given, final, prefix) ==
  /\ Len(final) = Len(given)
  /\ \A u \in DOMAIN given : ~Unnamed(given[u]) => final[u] = given[u]            \* untouched
  /\ \A u \in DOMAIN final : ~Unnamed(final[u])                                    \* non-empty
  /\ \A u, v \in DOMAIN final : u # v => final[u] # final[v]                       \* distinct
  /\ \A u \in DOMAIN given : Unnamed(given[u]) => IsFresh(prefix, final[u])        \* O# / S#
  /\ \A u, v \in DOMAIN given : (Unnamed(given[u]) /\ Unnamed(given[v]) /\ u < v)  \* pre-order
        => IndexOf(prefix, final[u]) < IndexOf(prefix, final[v])

=============================================================================
