------------------------------- MODULE RmqOps ------------------------------
(***************************************************************************)
(* Range-minimum queries (utils/range_min_query.py) and the Euler-tour     *)
(* lowest-common-ancestor structure built on them (utils/trees.py).        *)
(*                                                                         *)
(* Elements are pairs <<key, payload>> ordered lexicographically (Python   *)
(* tuples); an array of integers is presented as <<v, index>>, the Euler   *)
(* tour as <<level, node>>.  Positions are 0-based as in the code; None is *)
(* the empty sequence <<>>.                                                *)
(* Declarative layer: RangeMin by definition.  Code-shaped layer: the      *)
(* sparse table built level by level and the two-block query.              *)
(***************************************************************************)
EXTENDS Trees

None == <<>>
LexLess(p, q) == p[1] < q[1] \/ (p[1] = q[1] /\ p[2] < q[2])
MinP(p, q) == IF LexLess(q, p) THEN q ELSE p          \* Python min(): first argument on ties

RECURSIVE BitLen(_)
BitLen(m) == IF m = 0 THEN 0 ELSE 1 + BitLen(m \div 2)
ILog2(v) == BitLen(v) - 1                              \* v > 0

\* declarative: the least element among positions start .. stop-1
RangeMin(a, start, stop) ==
  IF start >= stop THEN None
  ELSE LET S == {a[k + 1] : k \in start..(stop - 1)}
       IN CHOOSE p \in S : \A q \in S : ~LexLess(q, p)

\* code-shaped sparse table: level 0 is the data, level d holds the minimum of
\* [i, i + 2^d) for i <= n - 2^d, None elsewhere
Levels(n) == ILog2(n) + 1
Level0(a) == [i \in 0..(Len(a) - 1) |-> a[i + 1]]
NextLevel(prev, n, d) ==
  [i \in 0..(n - 1) |-> IF i <= n - 2 ^ d THEN MinP(prev[i], prev[i + 2 ^ (d - 1)]) ELSE None]
SparseTable(a) ==
  LET n == Len(a) IN
  FoldLeft(LAMBDA tab, d : (d :> NextLevel(tab[d - 1], n, d)) @@ tab,
           (0 :> Level0(a)), [k \in 1..(Levels(n) - 1) |-> k])
\* QueryOff = 0 is the code; QueryOff = 1 forgets the second block (self-test mutant)
QueryWith(table, start, stop, off) ==
  IF start >= stop THEN None
  ELSE LET d == ILog2(stop - start)
       IN MinP(table[d][start], table[d][IF off = 0 THEN stop - 2 ^ d ELSE start])

(***************************************************************************)
(* Euler tour of a tree and first occurrences.                             *)
(***************************************************************************)
RECURSIVE Euler(_, _, _)
Euler(t, u, lev) ==
  LET ch == ChildSeq(t, u) IN
  IF Len(ch) = 0 THEN << <<lev, u>> >>
  ELSE << <<lev, u>> >> \o
       FoldLeft(LAMBDA acc, c : acc \o Euler(t, c, lev + 1) \o << <<lev, u>> >>, <<>>, ch)

FirstOcc(tour, u) == CHOOSE i \in 0..(Len(tour) - 1) :
                        tour[i + 1][2] = u /\ \A j \in 0..(i - 1) : tour[j + 1][2] # u

\* definitions on parent chains (the property's side)
LcaDef(t, S) ==
  LET common == {c \in Nodes(t) : \A x \in S : c \in Anc(t, x)}
  IN CHOOSE c \in common : \A d \in common : Cardinality(Anc(t, d)) <= Cardinality(Anc(t, c))
LevelDef(t, u) == Cardinality(Anc(t, u)) - 1
IsAncDef(t, a, d) == a \in Anc(t, d)
\* number of edges on the path between a and b
DistDef(t, a, b) == Cardinality((Anc(t, a) \cup Anc(t, b)) \ (Anc(t, a) \cap Anc(t, b)))

SeqOfSet(S) == SetToSortSeq(S, LAMBDA x, y : x < y)
=============================================================================
