----------------------------- MODULE TraceDrawing --------------------------
(***************************************************************************)
(* Trace validation of layouts and TikZ drawings against the abstract      *)
(* drawing (C13) and of colour scoping (C15).                              *)
(*  {"op":"drawing","in":{"ot","st","lm"},"m":[..],"orient":"V"|"H",        *)
(*   "lay_events":[[kind,species,gene],..],"lay_losses":[species,..],        *)
(*   "lay_arrows":[[node,child,species],..],                                 *)
(*   "tikz_events":[..],"tikz_losses":[..],"tikz_arrows":[..],               *)
(*   "problems":[".."],"exc":""}                                            *)
(*  {"op":"colours","in":{"ot"},"col":["",..],"drawn":[[gene,colour],..],    *)
(*   "losses":[[object node below the lost edge, colour],..],                *)
(*   "default":"000000"}                                                    *)
(***************************************************************************)
EXTENDS Drawing, Json, IOUtils, TLCExt

Log == ndJsonDeserialize(IOEnv.TRACE_FILE)

VARIABLES l
vars == <<l>>

SeqToSet(s) == {s[i] : i \in DOMAIN s}
CountIn(s, x) == Cardinality({i \in DOMAIN s : s[i] = x})

\* geometric placement: rectangles <<x, y, w, h>> in integer units, tolerance t
\* (0 unless coordinates had to be rounded); boxes are listed in pre-order
InBox(r, R, t) == /\ r[1] >= R[1] - t /\ r[2] >= R[2] - t
                  /\ r[1] + r[3] <= R[1] + R[3] + t /\ r[2] + r[4] <= R[2] + R[4] + t
Apart(a, b, t) == \/ a[3] = 0 \/ a[4] = 0 \/ b[3] = 0 \/ b[4] = 0
                  \/ a[1] + a[3] <= b[1] + t \/ b[1] + b[3] <= a[1] + t
                  \/ a[2] + a[4] <= b[2] + t \/ b[2] + b[4] <= a[2] + t
PlacementClauses(e) ==
  IF "boxes" \notin DOMAIN e THEN {} ELSE
  IF \A i \in DOMAIN e.nodes :
       LET nd == e.nodes[i]
           u == nd[1]
           r == <<nd[2], nd[3], nd[4], nd[5]>>
       IN /\ u \in DOMAIN e.boxes
          /\ InBox(r, e.boxes[u], e.tol)
          /\ \A v \in DOMAIN e.st : e.st[v] = u => Apart(r, e.boxes[v], e.tol)
  THEN {} ELSE {"ClauseNodesInsideSpecies"}

DrawingClauses(e) ==
  IF e.exc # "" THEN {"ClauseNoFailure"} ELSE PlacementClauses(e) \cup
  LET ot == e.in.ot
      I == Info(e.in.st)
      m == e.m
      wantEv == EventNodes(ot, I, m)
      wantLoss == LossBag(ot, I, m)
      wantArr == Arrows(ot, I, m)
      evOK(obs) == SeqToSet(obs) = {<<x[1], x[2], x[3]>> : x \in wantEv} /\ Len(obs) = Cardinality(wantEv)
      lossOK(obs) == \A x \in 1..I.n : CountIn(obs, x) = wantLoss[x]
      arrOK(obs) == SeqToSet(obs) = {<<x[1], x[2], x[3]>> : x \in wantArr} /\ Len(obs) = Cardinality(wantArr)
  IN (IF ~evOK(e.lay_events) THEN {"ClauseLayoutEventNodes"} ELSE {})
     \cup (IF ~lossOK(e.lay_losses) \/ Len(e.lay_losses) # FoldLeft(LAMBDA a, x : a + wantLoss[x], 0, [i \in 1..I.n |-> i])
           THEN {"ClauseLayoutLossMarkers"} ELSE {})
     \cup (IF ~arrOK(e.lay_arrows) THEN {"ClauseLayoutTransfers"} ELSE {})
     \cup (IF ~evOK(e.tikz_events) THEN {"ClauseDrawnEventNodes"} ELSE {})
     \cup (IF ~lossOK(e.tikz_losses) \/ Len(e.tikz_losses) # Len(e.lay_losses) THEN {"ClauseDrawnLossMarkers"} ELSE {})
     \cup (IF ~arrOK(e.tikz_arrows) THEN {"ClauseDrawnTransferArrows"} ELSE {})
     \cup (IF e.problems # <<>> THEN {"ClauseDrawnStatementsLocated"} ELSE {})

ColourClauses(e) ==
  LET ot == e.in.ot
      eff(u) == LET c == EffColour(ot, e.col, u) IN IF c = "" THEN e.default ELSE c
      \* a loss marker lies on the edge above object node v: it carries the colour of
      \* one end of that edge (the edge into a coloured root may have either)
      lossOK(v, c) == c = eff(v) \/ (ot[v] # 0 /\ c = eff(ot[v])) \/ (ot[v] = 0 /\ c = e.default)
  IN (IF \E i \in DOMAIN e.drawn : e.drawn[i][2] # eff(e.drawn[i][1]) THEN {"ClauseColourScope"} ELSE {})
     \cup (IF \E i \in DOMAIN e.losses : ~lossOK(e.losses[i][1], e.losses[i][2]) THEN {"ClauseLossColourScope"} ELSE {})

\* tex.measure on canned engine output: one box per text, in the order given
\* {"op":"measure","texts":k,"sent":[[w,h,d],..],"got":[[w,h,d],..]}  (tenths of points)
MeasureClauses(e) ==
  (IF Len(e.got) # e.texts THEN {"ClauseMeasureCount"} ELSE {})
  \cup (IF e.got # e.sent THEN {"ClauseMeasureOrder"} ELSE {})

Clauses(e) == CASE e.op = "drawing" -> DrawingClauses(e)
                [] e.op = "measure" -> MeasureClauses(e)
                [] e.op = "colours" -> ColourClauses(e)
                [] OTHER -> {"ClauseUnknownOp"}
Judge(e) ==
  LET bad == Clauses(e) IN
  IF bad = {} THEN TRUE
  ELSE PrintT(<<"VERDICT", e.n, bad>>) /\ TLCSet(1, TLCGet(1) + 1)

Init == l = 1 /\ TLCSet(1, 0)
Next == l <= Len(Log) /\ Judge(Log[l]) /\ l' = l + 1
Spec == Init /\ [][Next]_vars

Consumed ==
  /\ PrintT(<<"SUMMARY", TLCGet("stats").diameter - 1, Len(Log), TLCGet(1)>>)
  /\ TLCGet("stats").diameter - 1 = Len(Log)
=============================================================================
