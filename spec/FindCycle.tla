----------------------------- MODULE FindCycle -----------------------------
(***************************************************************************)
(* find_cycle (utils/toposort.py), the routine that names a family cycle   *)
(* in the warning of the ordered solvers when no root order exists.  It is *)
(* outside the twenty listed properties; the module exists so that the     *)
(* specification covers the whole of toposort.py, and it records what the  *)
(* routine does and does not guarantee.                                    *)
(*                                                                         *)
(* Code shape: an explicit stack seeded with the FIRST key of the dict; a  *)
(* vertex is popped, its successors are scanned in the iteration order of  *)
(* a Python set (any order: the action picks any unscanned successor); a   *)
(* successor already in `parents` ends the search (`parents` doubles as    *)
(* the visited set); the answer follows `parents` back from that vertex.   *)
(*                                                                         *)
(* What holds (checked): NoneSound, ParentEdges, Terminates.               *)
(* What does not (refuted by TLC, recorded as a deviation from the         *)
(* docstring): IsCycle - a vertex reached a second time along another path *)
(* (a diamond in a DAG) is taken for a cycle; NoneComplete - a cycle not   *)
(* reachable from the first key is not found.                              *)
(***************************************************************************)
EXTENDS Naturals, Sequences, FiniteSets, TLC

CONSTANTS N,              \* vertices 1..N; vertex 1 is the first key
          Graphs          \* the graphs explored: functions 1..N -> SUBSET 1..N

VARIABLES g, stack, parents, cur, todo, hit, cycle, walk, pc
vars == <<g, stack, parents, cur, todo, hit, cycle, walk, pc>>

V == 1..N
AllGraphs == [V -> SUBSET V]
None == 0

Init ==
  /\ g \in Graphs
  /\ stack = <<1>>
  /\ parents = [v \in V |-> IF v = 1 THEN 1 ELSE None]
  /\ cur = None /\ todo = {} /\ hit = None
  /\ cycle = <<>> /\ walk = None
  /\ pc = "loop"

\* while stack and cycle_start is None: current = stack.pop()
Pop ==
  /\ pc = "loop" /\ todo = {} /\ hit = None /\ stack # <<>>
  /\ cur' = stack[Len(stack)]
  /\ stack' = SubSeq(stack, 1, Len(stack) - 1)
  /\ todo' = g[stack[Len(stack)]]
  /\ pc' = IF g[stack[Len(stack)]] = {} THEN "loop" ELSE "scan"
  /\ UNCHANGED <<g, parents, hit, cycle, walk>>

\* for neighbor in graph[current]  (iteration order of a set: any)
Scan ==
  /\ pc = "scan"
  /\ \E nb \in todo :
       IF parents[nb] # None
       THEN /\ parents' = [parents EXCEPT ![nb] = cur]
            /\ hit' = nb /\ todo' = {} /\ pc' = "loop"      \* break
            /\ UNCHANGED stack
       ELSE /\ parents' = [parents EXCEPT ![nb] = cur]
            /\ stack' = Append(stack, nb)
            /\ todo' = todo \ {nb}
            /\ pc' = IF todo \ {nb} = {} THEN "loop" ELSE "scan"
            /\ UNCHANGED hit
  /\ UNCHANGED <<g, cur, cycle, walk>>

\* loop exit
Exit ==
  /\ pc = "loop" /\ todo = {} /\ (stack = <<>> \/ hit # None)
  /\ IF hit = None
     THEN pc' = "none" /\ UNCHANGED <<cycle, walk>>
     ELSE pc' = "walk" /\ cycle' = <<hit>> /\ walk' = parents[hit]
  /\ UNCHANGED <<g, stack, parents, cur, todo, hit>>

\* while current not in (cycle_start, parents[current])
Walk ==
  /\ pc = "walk"
  /\ IF walk # hit /\ walk # parents[walk]
     THEN cycle' = Append(cycle, walk) /\ walk' = parents[walk] /\ pc' = pc
     ELSE pc' = "list" /\ UNCHANGED <<cycle, walk>>
  /\ UNCHANGED <<g, stack, parents, cur, todo, hit>>

Next == Pop \/ Scan \/ Exit \/ Walk
Spec == Init /\ [][Next]_vars /\ WF_vars(Next)

----------------------------------------------------------------------------
Reach(from) ==
  LET RECURSIVE R(_)
      R(S) == LET T == S \cup UNION {g[v] : v \in S} IN IF T = S THEN S ELSE R(T)
  IN R({from})
OnCycle(v) == \E w \in g[v] : v \in Reach(w)
Cyclic(S) == \E v \in S : OnCycle(v)

\* the listed vertices, followed backwards, are edges of the graph
ParentEdges == pc = "list" =>
  /\ \A i \in 1..(Len(cycle) - 1) : cycle[i] \in g[cycle[i + 1]]
  /\ \A i \in 1..Len(cycle) : cycle[i] \in Reach(1)
\* no answer only when the part reachable from the first key has no cycle
NoneSound == pc = "none" => ~Cyclic(Reach(1))
\* an answer whenever that part has one
FoundWhenReachable == pc \in {"none", "list"} /\ Cyclic(Reach(1)) => pc = "list"
Terminates == <>(pc \in {"none", "list"})

\* what the docstring promises and the code does not deliver
IsCycle == pc = "list" => cycle[Len(cycle)] \in g[cycle[1]]
NoneComplete == pc = "none" => ~Cyclic(V)

\* the answers possible for a graph, for the replay into the code
Answer == IF pc = "none" THEN <<"none">> ELSE IF pc = "list" THEN <<"list", cycle>> ELSE <<"running">>
=============================================================================
