--------------------------------- MODULE Rmq -------------------------------
(***************************************************************************)
(* State machine of RangeMinQuery: build the sparse table one level per    *)
(* action, then answer one arbitrary query.                                *)
(***************************************************************************)
EXTENDS RmqOps

CONSTANTS MaxLen, Vals, QueryOff

VARIABLES arr, table, d, qs, qe, ans, pc
vars == <<arr, table, d, qs, qe, ans, pc>>

Arrays == UNION {[1..n -> Vals] : n \in 1..MaxLen}
Elems(a) == [i \in 1..Len(a) |-> <<a[i], i - 1>>]      \* <<value, index>>

Init == /\ arr \in Arrays
        /\ table = (0 :> Level0(Elems(arr)))
        /\ d = 1 /\ qs = 0 /\ qe = 0 /\ ans = None
        /\ pc = "build"

Build == /\ pc = "build"
         /\ IF d < Levels(Len(arr))
            THEN /\ table' = (d :> NextLevel(table[d - 1], Len(arr), d)) @@ table
                 /\ d' = d + 1 /\ pc' = pc
            ELSE /\ pc' = "ready" /\ UNCHANGED <<table, d>>
         /\ UNCHANGED <<arr, qs, qe, ans>>

Ask(s, e) == /\ pc = "ready"
             /\ qs' = s /\ qe' = e
             /\ ans' = QueryWith(table, s, e, QueryOff)
             /\ pc' = "answered"
             /\ UNCHANGED <<arr, table, d>>

Next == Build \/ \E s, e \in 0..Len(arr) : Ask(s, e)
Spec == Init /\ [][Next]_vars

\* every filled cell is the minimum of its block
TableInv == \A k \in DOMAIN table : \A i \in 0..(Len(arr) - 1) :
  table[k][i] = IF i <= Len(arr) - 2 ^ k THEN RangeMin(Elems(arr), i, i + 2 ^ k) ELSE None
BuiltInv == pc # "build" => (DOMAIN table = 0..(Levels(Len(arr)) - 1) /\ table = SparseTable(Elems(arr)))
AnswerInv == pc = "answered" => ans = RangeMin(Elems(arr), qs, qe)
=============================================================================
