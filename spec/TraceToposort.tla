---------------------------- MODULE TraceToposort --------------------------
(***************************************************************************)
(* Trace validation for utils/toposort.py.                                 *)
(*  {"op":"all","nv":k,"edges":[[u,v],..],"out":[[..],..]}                  *)
(*  {"op":"one","nv":k,"edges":[[u,v],..],"none":true|false,"out":[..]}     *)
(* Vertices are 1..nv.  The answer of toposort_all must be, as a bag, the   *)
(* set of topological orderings obtained by permutation filtering.          *)
(***************************************************************************)
EXTENDS ToposortOps, Json, IOUtils, TLCExt

Log == ndJsonDeserialize(IOEnv.TRACE_FILE)

VARIABLES l
vars == <<l>>

GraphOf(e) == [n |-> e.nv, e |-> {<<e.edges[i][1], e.edges[i][2]>> : i \in DOMAIN e.edges}]

Clauses(e) ==
  LET G == GraphOf(e) IN
  CASE e.op = "all" ->
         LET got == {e.out[i] : i \in DOMAIN e.out} IN
         (IF \E p \in got : ~IsTopo(G, p) THEN {"ClauseOnlyOrderings"} ELSE {})
         \cup (IF Len(e.out) # Cardinality(got) THEN {"ClauseNoRepetition"} ELSE {})
         \cup (IF ~(AllOrders(G) \subseteq got) THEN {"ClauseComplete"} ELSE {})
    [] e.op = "one" ->
         (IF ~e.none /\ ~IsTopo(G, e.out) THEN {"ClauseValidOrdering"} ELSE {})
         \cup (IF e.none # (AllOrders(G) = {}) THEN {"ClauseIffExists"} ELSE {})
    [] OTHER -> {"ClauseUnknownOp"}

Judge(e) ==
  LET bad == Clauses(e) IN
  IF bad = {} THEN TRUE
  ELSE PrintT(<<"VERDICT", e.n, bad>>) /\ TLCSet(1, TLCGet(1) + 1)

Init == l = 1 /\ TLCSet(1, 0)
Next == l <= Len(Log) /\ Judge(Log[l]) /\ l' = l + 1
Spec == Init /\ [][Next]_vars

Consumed ==
  /\ PrintT(<<"SUMMARY", TLCGet("stats").diameter - 1, Len(Log), TLCGet(1)>>)
  /\ TLCGet("stats").diameter - 1 = Len(Log)
=============================================================================
