---------------------------- MODULE TraceDPEntry ---------------------------
(***************************************************************************)
(* Trace validation (direction code -> specification) for Entry / Table    *)
(* cells.  The log is NDJSON, one event per public call of the real code:  *)
(*   {"op":"new","id":i,"mp":"MIN","rp":"ALL","cell":false}                *)
(*   {"op":"update","id":i,"cands":[[v,"tag"],..],"val":v,"tags":[..]}     *)
(*   {"op":"combine","a":i,"b":j,"id":k,"pairs":[[v,"t1|t2"],..],          *)
(*                                        "val":v,"tags":[..]}             *)
(* Every event is judged by named clauses of the DPEntryOps contract; a    *)
(* failing clause is printed and counted, it never blocks the trace.       *)
(***************************************************************************)
EXTENDS DPEntryOps, Json, IOUtils, TLCExt

Log == ndJsonDeserialize(IOEnv.TRACE_FILE)

VARIABLES l, ents
vars == <<l, ents>>

Obs(e) == [val |-> e.val, tags |-> ToSet(e.tags)]

\* infinite candidates never materialise a cell, so they do not count for it
Counted(meta, cands) == IF meta.cell THEN {c \in cands : ~IsInf(c[1])} ELSE cands

Clauses(e) ==
  CASE e.op = "new" -> {}
    [] e.op = "update" ->
         LET meta == ents[e.id]
             off == meta.off \cup Counted(meta, ToSet(e.cands))
             ok == Allowed(meta.mp, meta.rp, off)
         IN (IF Obs(e).val # Best(meta.mp, off) THEN {"ClauseValue"} ELSE {})
            \cup (IF Obs(e).tags \notin AllowedTagSets(meta.mp, meta.rp, off)
                  THEN {"ClauseTags"} ELSE {})
    [] e.op = "combine" ->
         LET a == ents[e.a]
             b == ents[e.b]
             want == {PairTag(t1, t2) : t1 \in a.tags, t2 \in b.tags}
             pairs == ToSet(e.pairs)
         IN (IF {p[2] : p \in pairs} # want THEN {"ClauseCombinePairs"} ELSE {})
            \cup (IF want = {} /\ Obs(e) # Fresh(a.mp) THEN {"ClauseCombineEmpty"} ELSE {})
            \cup (IF want # {} /\ Obs(e) \notin Allowed(a.mp, a.rp, pairs)
                  THEN {"ClauseCombine"} ELSE {})
    [] OTHER -> {"ClauseUnknownOp"}

Apply(e) ==
  CASE e.op = "new" ->
         (e.id :> [mp |-> e.mp, rp |-> e.rp, cell |-> e.cell, off |-> {}, tags |-> {}]) @@ ents
    [] e.op = "update" ->
         [ents EXCEPT ![e.id].off = @ \cup Counted(ents[e.id], ToSet(e.cands)),
                      ![e.id].tags = ToSet(e.tags)]
    [] e.op = "combine" ->
         (e.id :> [mp |-> ents[e.a].mp, rp |-> ents[e.a].rp, cell |-> FALSE,
                   off |-> ToSet(e.pairs), tags |-> ToSet(e.tags)]) @@ ents
    [] OTHER -> ents

Judge(e) ==
  LET bad == Clauses(e) IN
  IF bad = {} THEN TRUE
  ELSE PrintT(<<"VERDICT", e.n, bad>>) /\ TLCSet(1, TLCGet(1) + 1)

Init == l = 1 /\ ents = <<>> /\ TLCSet(1, 0)

Next ==
  /\ l <= Len(Log)
  /\ Judge(Log[l])
  /\ ents' = Apply(Log[l])
  /\ l' = l + 1

Spec == Init /\ [][Next]_vars

Consumed ==
  /\ PrintT(<<"SUMMARY", TLCGet("stats").diameter - 1, Len(Log), TLCGet(1)>>)
  /\ TLCGet("stats").diameter - 1 = Len(Log)
=============================================================================
