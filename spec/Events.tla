------------------------------- MODULE Events ------------------------------
(***************************************************************************)
(* The documented event model of a reconciliation (L0, declarative).       *)
(* ot: object tree, I: Info(species tree), m: species of every object      *)
(* node (sequence over Nodes(ot)), lm: species of the object leaves (0 on  *)
(* internal nodes), c: unit costs [spe, dup, hgt, floss, sloss].           *)
(* Written from the property statements, not from the code: losses are     *)
(* counted as the *set of species* in which a lineage disappears.          *)
(***************************************************************************)
EXTENDS Trees

Inf == 1000000
Add(a, b) == IF a >= Inf \/ b >= Inf THEN Inf ELSE a + b
Add3(a, b, d) == Add(a, Add(b, d))
Add4(a, b, d, e) == Add(Add(a, b), Add(d, e))
Mul(k, a) == IF a >= Inf THEN (IF k = 0 THEN 0 ELSE Inf) ELSE k * a
SetMin(S) == IF S = {} THEN Inf ELSE Min(S)
Min2(a, b) == IF a <= b THEN a ELSE b

\* Event of an internal node mapped to s whose children are mapped to sl, sr.
\* "TL": the left child is conserved (stays below s), the right one is
\* transferred; "TR" the other way round; "X": not an event of the model.
Event(I, s, sl, sr) ==
  IF IsStrictAnc(I, sl, s) \/ IsStrictAnc(I, sr, s) THEN "X"
  ELSE IF IsAnc(I, s, sl) /\ IsAnc(I, s, sr) THEN
         (IF s = I.lca[sl][sr] /\ Sep(I, sl, sr) THEN "S" ELSE "D")
  ELSE IF IsAnc(I, s, sl) THEN "TL"
  ELSE IF IsAnc(I, s, sr) THEN "TR"
  ELSE "X"

\* Species in which the vertical lineage from s down to sc loses a copy: one
\* per species edge it goes through, named by the upper end of the edge.  At a
\* speciation the first edge is used by the speciation itself.
Path(I, s, sc) == {x \in 1..I.n : IsAnc(I, s, x) /\ IsAnc(I, x, sc) /\ x # sc}
LossSites(I, kind, s, sc) == IF kind = "S" THEN Path(I, s, sc) \ {s} ELSE Path(I, s, sc)

\* full losses charged at one internal node (as a number)
NodeLosses(I, kind, s, sl, sr) ==
  CASE kind = "S"  -> Cardinality(LossSites(I, "S", s, sl)) + Cardinality(LossSites(I, "S", s, sr))
    [] kind = "D"  -> Cardinality(LossSites(I, "D", s, sl)) + Cardinality(LossSites(I, "D", s, sr))
    [] kind = "TL" -> Cardinality(LossSites(I, "D", s, sl))
    [] kind = "TR" -> Cardinality(LossSites(I, "D", s, sr))
    [] OTHER -> 0

EventCost(c, kind) ==
  CASE kind = "S" -> c.spe [] kind = "D" -> c.dup
    [] kind \in {"TL", "TR"} -> c.hgt [] OTHER -> Inf

NodeCost(I, c, s, sl, sr) ==
  LET kind == Event(I, s, sl, sr) IN
  IF kind = "X" THEN Inf
  ELSE Add(EventCost(c, kind), c.floss * NodeLosses(I, kind, s, sl, sr))

EventAt(ot, I, m, u) ==
  IF IsLeaf(ot, u) THEN "L" ELSE Event(I, m[u], m[Left(ot, u)], m[Right(ot, u)])

RecCost(ot, I, c, m) ==
  FoldLeft(LAMBDA acc, u : Add(acc, NodeCost(I, c, m[u], m[Left(ot, u)], m[Right(ot, u)])),
           0, SetToSeq(Internal(ot)))

Valid(ot, I, lm, m) ==
  /\ \A u \in Leaves(ot) : m[u] = lm[u]
  /\ \A u \in Internal(ot) : Event(I, m[u], m[Left(ot, u)], m[Right(ot, u)]) # "X"

\* every total mapping that keeps the leaves where they are
AllMappings(ot, nsp, lm) ==
  {[u \in Nodes(ot) |-> IF IsLeaf(ot, u) THEN lm[u] ELSE f[u]] : f \in [Internal(ot) -> 1..nsp]}

ValidMappings(ot, I, lm) == {m \in AllMappings(ot, I.n, lm) : Valid(ot, I, lm, m)}

\* minimum and optimal set by explicit enumeration
Ranked(ot, I, lm, c) == {<<m, RecCost(ot, I, c, m)>> : m \in ValidMappings(ot, I, lm)}
MinOf(pairs) == SetMin({p[2] : p \in pairs})
OptOf(pairs) == LET mn == MinOf(pairs) IN
                IF mn >= Inf THEN {} ELSE {p[1] : p \in {q \in pairs : q[2] = mn}}

\* the LCA mapping, by definition on parent chains
LcaMap(ot, OI, I, lm) ==
  [u \in Nodes(ot) |-> LcaSet(I, {lm[w] : w \in Clade(ot, OI, u)})]

\* region in which the optimisers and the evaluator price a node at the LCA
\* of two separated children alike (DESIGN.md section 9.2)
CoherentDTL(c) == c.spe <= c.dup + 2 * c.floss
Coherent(c) == c.spe + 2 * c.sloss <= c.dup + 2 * c.floss

(***************************************************************************)
(* L1: Bellman recurrence, pairwise, no aggregation.                       *)
(*   Sub[u][s] = min over (sl, sr) of NodeCost(s, sl, sr) + Sub[l][sl] + Sub[r][sr] *)
(***************************************************************************)
L1Row(ot, I, lm, c, prev, u) ==
  IF IsLeaf(ot, u) THEN [s \in 1..I.n |-> IF s = lm[u] THEN 0 ELSE Inf]
  ELSE LET l == Left(ot, u)
           r == Right(ot, u)
           fl == {x \in 1..I.n : prev[l][x] < Inf}
           fr == {x \in 1..I.n : prev[r][x] < Inf}
       IN [s \in 1..I.n |->
             SetMin({Add3(NodeCost(I, c, s, p[1], p[2]), prev[l][p[1]], prev[r][p[2]]) : p \in fl \X fr})]

L1Table(ot, I, lm, c) ==
  FoldLeft(LAMBDA acc, u : (u :> L1Row(ot, I, lm, c, acc, u)) @@ acc, <<>>, BottomUp(ot))

L1Min(ot, I, T) == SetMin({T[1][s] : s \in 1..I.n})

\* all optimal mappings of the subtree of u given that u sits in s
RECURSIVE L1Decode(_, _, _, _, _, _)
L1Decode(ot, I, c, T, u, s) ==
  IF IsLeaf(ot, u) THEN {(u :> s)}
  ELSE LET l == Left(ot, u)
           r == Right(ot, u)
           best == {p \in (1..I.n) \X (1..I.n) :
                      /\ T[l][p[1]] < Inf /\ T[r][p[2]] < Inf
                      /\ Add3(NodeCost(I, c, s, p[1], p[2]), T[l][p[1]], T[r][p[2]]) = T[u][s]}
       IN UNION {{(u :> s) @@ ml @@ mr : ml \in L1Decode(ot, I, c, T, l, p[1]),
                                         mr \in L1Decode(ot, I, c, T, r, p[2])} : p \in best}

L1Opt(ot, I, c, T) ==
  LET mn == L1Min(ot, I, T) IN
  IF mn >= Inf THEN {}
  ELSE UNION {L1Decode(ot, I, c, T, 1, s) : s \in {x \in 1..I.n : T[1][x] = mn}}
=============================================================================
