----------------------------- MODULE TracePipeline -------------------------
(***************************************************************************)
(* Trace validation of the command-line tool and of the serialisation      *)
(* round trip (C11, C12).  Documents are projected by the driver to plain  *)
(* records; this module holds the relations between them.                  *)
(*  {"op":"roundtrip","before":doc,"after":doc,"again":doc}                 *)
(*     doc = {"ot":[..],"onames":[..],"ocolors":[..],"st","snames",         *)
(*            "scolors","lm":{..as list of pairs},"costs":[..],"m":[..],    *)
(*            "lab":[[..]],"ordered":0|1|-1,"events":[..],"cost":c}         *)
(*     `again` is the document obtained from the re-serialised dictionary   *)
(*  {"op":"cli","alg","policy","hassyn":bool,"given":{"onames","snames",    *)
(*   "lm":[[leaf,species],..]},                                            *)
(*   "exit":rc,"lines":[doc,..],"printed":c,"drawn":[bool,..]}              *)
(*  {"op":"cli-pair","all":[key,..],"any":[key,..]}                         *)
(***************************************************************************)
EXTENDS PipelineOps, Json, IOUtils, TLCExt

Log == ndJsonDeserialize(IOEnv.TRACE_FILE)

VARIABLES l
vars == <<l>>

SameDoc(a, b) ==
  /\ a.ot = b.ot /\ a.st = b.st                       \* topology and child order
  /\ a.onames = b.onames /\ a.snames = b.snames
  /\ a.ocolors = b.ocolors /\ a.scolors = b.scolors
  /\ a.lm = b.lm /\ a.costs = b.costs
  /\ a.m = b.m /\ a.lab = b.lab /\ a.ordered = b.ordered
SetOfSeq(s) == {s[i] : i \in DOMAIN s}

\* the leaf assignment a written solution must carry: the given one, or - when the
\* input gives none - the one inferred from the leaf names by the documented rule
ExpectedLm(e) ==
  IF e.given.infer = <<>> THEN e.given.lm
  ELSE [i \in DOMAIN e.given.infer |-> <<e.given.infer[i][1], InferSpecies(e.given.infer[i][2], e.given.species)>>]

Clauses(e) ==
  CASE e.op = "roundtrip" ->
         (IF ~SameDoc(e.before, e.after) THEN {"ClauseSameDocument"} ELSE {})
         \cup (IF e.before.events # e.after.events \/ e.before.cost # e.after.cost THEN {"ClauseSameEventsAndCost"} ELSE {})
         \cup (IF ~SameDoc(e.after, e.again) THEN {"ClauseReserialise"} ELSE {})
    [] e.op = "cli" ->
         IF e.alg \in SuperAlgs /\ ~e.hassyn
         THEN (IF e.exit # 1 THEN {"ClauseRejectStatus"} ELSE {})
              \cup (IF Len(e.lines) # 0 THEN {"ClauseRejectWritesNothing"} ELSE {})
         ELSE (IF e.exit # 0 THEN {"ClauseExitStatus"} ELSE {})
              \cup (IF Len(e.lines) = 0 THEN {"ClauseWritesSolution"} ELSE {})
              \cup (IF \E i \in DOMAIN e.lines : ~NamesOK(e.given.onames, e.lines[i].onames, "O")
                                                 \/ ~NamesOK(e.given.snames, e.lines[i].snames, "S")
                    THEN {"ClauseNodeNames"} ELSE {})
              \cup (IF \E i \in DOMAIN e.lines : e.lines[i].cost # e.printed THEN {"ClausePrintedCost"} ELSE {})
              \cup (IF \E i \in DOMAIN e.lines : e.lines[i].lm # ExpectedLm(e) THEN {"ClauseLeafAssignment"} ELSE {})
              \cup (IF \E i \in DOMAIN e.drawn : ~e.drawn[i] THEN {"ClauseDrawAccepts"} ELSE {})
              \cup (IF e.policy = "any" /\ Len(e.lines) > 1 THEN {"ClauseAnyOne"} ELSE {})
    [] e.op = "cli-pair" ->
         IF ~(SetOfSeq(e.any) \subseteq SetOfSeq(e.all)) THEN {"ClauseAllSupersetOfAny"} ELSE {}
    [] OTHER -> {"ClauseUnknownOp"}

Judge(e) ==
  LET bad == Clauses(e) IN
  IF bad = {} THEN TRUE
  ELSE PrintT(<<"VERDICT", e.n, bad>>) /\ TLCSet(1, TLCGet(1) + 1)

Init == l = 1 /\ TLCSet(1, 0)
Next == l <= Len(Log) /\ Judge(Log[l]) /\ l' = l + 1
Spec == Init /\ [][Next]_vars

Consumed ==
  /\ PrintT(<<"SUMMARY", TLCGet("stats").diameter - 1, Len(Log), TLCGet(1)>>)
  /\ TLCGet("stats").diameter - 1 = Len(Log)
=============================================================================
