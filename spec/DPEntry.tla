------------------------------ MODULE DPEntry ------------------------------
(***************************************************************************)
(* State machine over the operators of DPEntryOps: one standalone entry    *)
(* and one table cell, both driven by the same candidates, with the ghost  *)
(* variable `offered`.  TLC visits the whole state graph: finite, hence     *)
(* closed under update histories of any length.                            *)
(***************************************************************************)
EXTENDS DPEntryOps

CONSTANTS Vals,          \* finite candidate values
          Tags,          \* real tags (strings); the absent tag is NoTag
          WithInf        \* TRUE: candidates with the worst (infinite) value too

(***************************************************************************)
(* State machine: one standalone entry, one table cell, both driven by the *)
(* same candidates; `offered` is a ghost variable.                         *)
(***************************************************************************)
VARIABLES mp, rp, ent, cell, offered
vars == <<mp, rp, ent, cell, offered>>

CandVals == Vals
Cands == (CandVals \X (Tags \cup {NoTag}))
InfCands(m) == IF WithInf THEN {Worst(m)} \X (Tags \cup {NoTag}) ELSE {}

Init ==
  /\ mp \in MPs
  /\ rp \in RPs
  /\ ent = Fresh(mp)
  /\ cell = <<>>
  /\ offered = {}

Update(c) ==
  /\ ent' = ImplStep(mp, rp, ent, c)
  /\ cell' = ImplCellUpdate(mp, rp, cell, <<c>>)
  /\ offered' = offered \cup {c}
  /\ UNCHANGED <<mp, rp>>

UpdateBatch(c, d) ==
  /\ ent' = ImplBatch(mp, rp, ent, <<c, d>>)
  /\ cell' = ImplCellUpdate(mp, rp, cell, <<c, d>>)
  /\ offered' = offered \cup {c, d}
  /\ UNCHANGED <<mp, rp>>

Next ==
  \/ \E c \in Cands \cup InfCands(mp) : Update(c)
  \/ \E c, d \in Cands \cup InfCands(mp) : UpdateBatch(c, d)

Spec == Init /\ [][Next]_vars

Finite(off) == {c \in off : ~IsInf(c[1])}

EntryContract == ContractOK(mp, rp, ent, offered)
\* For a cell the infinite candidates do not count (they never materialise it).
CellContract == ContractOK(mp, rp, ImplCellRead(mp, cell), Finite(offered))
NeverWritten == (Finite(offered) = {}) => (cell = <<>> /\ ImplCellRead(mp, cell) = Fresh(mp))
\* The value never gets worse and the ghost set only grows.
Monotone == [][/\ offered \subseteq offered'
               /\ ~Better(mp, ent.val, ent'.val)]_vars
=============================================================================
