------------------------------- MODULE TikzOps -----------------------------
(***************************************************************************)
(* Well-formedness of a generated TikZ document (render/tikz.py) as an     *)
(* automaton over its token stream, label escaping and line wrapping       *)
(* (utils/tex.py, utils/text.py, model/synteny.py).                        *)
(* Tokens: "{" "}" "begin" "end" "stmt" ";" and <<"def", c>> / <<"use", c>> *)
(* are encoded as records [t |-> kind, c |-> colour name or ""].           *)
(* Text is a sequence of character codes.                                  *)
(***************************************************************************)
EXTENDS Integers, Sequences, FiniteSets, SequencesExt, FiniteSetsExt, TLC

Start == [phase |-> "pre", depth |-> 0, defined |-> {}, open |-> FALSE, pics |-> 0, bad |-> {}]
Step(s, tok) ==
  CASE tok.t = "{" -> [s EXCEPT !.depth = @ + 1]
    [] tok.t = "}" -> IF s.depth = 0 THEN [s EXCEPT !.bad = @ \cup {"ClauseBracesBalanced"}] ELSE [s EXCEPT !.depth = @ - 1]
    [] tok.t = "begin" -> [s EXCEPT !.phase = "pic", !.pics = @ + 1,
                                    !.bad = @ \cup (IF s.phase # "pre" THEN {"ClauseSinglePicture"} ELSE {})
                                              \cup (IF s.depth # 0 THEN {"ClauseBracesBalanced"} ELSE {})]
    [] tok.t = "end" -> [s EXCEPT !.phase = "post",
                                  !.bad = @ \cup (IF s.phase # "pic" THEN {"ClauseSinglePicture"} ELSE {})
                                            \cup (IF s.open THEN {"ClauseStatementsTerminated"} ELSE {})
                                            \cup (IF s.depth # 0 THEN {"ClauseBracesBalanced"} ELSE {})]
    [] tok.t = "def" -> [s EXCEPT !.defined = @ \cup {tok.c},
                                  !.bad = @ \cup (IF s.phase # "pre" THEN {"ClauseColoursDefinedBeforePicture"} ELSE {})]
    [] tok.t = "use" -> [s EXCEPT !.bad = @ \cup (IF tok.c \notin s.defined THEN {"ClauseColoursDefinedBeforePicture"} ELSE {})]
    [] tok.t = "stmt" -> [s EXCEPT !.open = TRUE,
                                   !.bad = @ \cup (IF s.open THEN {"ClauseStatementsTerminated"} ELSE {})
                                             \cup (IF s.phase # "pic" THEN {"ClauseSinglePicture"} ELSE {})]
    [] tok.t = ";" -> [s EXCEPT !.open = FALSE]
    [] OTHER -> [s EXCEPT !.bad = @ \cup {"ClauseUnknownToken"}]
Finish(s) == s.bad \cup (IF s.depth # 0 THEN {"ClauseBracesBalanced"} ELSE {})
                   \cup (IF s.pics # 1 \/ s.phase # "post" THEN {"ClauseSinglePicture"} ELSE {})
                   \cup (IF s.open THEN {"ClauseStatementsTerminated"} ELSE {})
Run(tokens) == Finish(FoldLeft(Step, Start, tokens))

(***************************************************************************)
(* Text: escaping and wrapping                                             *)
(***************************************************************************)
BS == 92   \* backslash
US == 95   \* underscore
SPC == 32
COMMA == 44
Escape(s) == FoldLeft(LAMBDA acc, ch : acc \o (IF ch = BS THEN <<BS, BS>> ELSE IF ch = US THEN <<BS, US>> ELSE <<ch>>), <<>>, s)
\* families joined by ", "
RECURSIVE JoinFams(_)
JoinFams(fs) == IF Len(fs) = 0 THEN <<>> ELSE IF Len(fs) = 1 THEN fs[1] ELSE fs[1] \o <<COMMA, SPC>> \o JoinFams(Tail(fs))
\* shown text with every line break (two backslashes) put back to one space;
\* scanned from the expected text so that escaped backslashes are not mistaken
\* for breaks: at each position either the characters agree, or the expected
\* one is a space and the shown text has a break there
RECURSIVE Unbroken(_, _)
Unbroken(expected, shown) ==
  IF expected = <<>> THEN shown = <<>>
  ELSE IF shown = <<>> THEN FALSE
  ELSE IF Head(expected) = SPC /\ Len(shown) >= 2 /\ shown[1] = BS /\ shown[2] = BS
       THEN Unbroken(Tail(expected), SubSeq(shown, 3, Len(shown)))
       ELSE Head(expected) = Head(shown) /\ Unbroken(Tail(expected), Tail(shown))

\* label of an extant object without synteny: <species>\textsubscript{<id>}, the
\* name being split at its last underscore, both parts escaped
SUBSCRIPT == <<92, 116, 101, 120, 116, 115, 117, 98, 115, 99, 114, 105, 112, 116, 123>>   \* "\textsubscript{"
LastUnderscore(s) == CHOOSE i \in DOMAIN s : s[i] = US /\ \A j \in (i + 1)..Len(s) : s[j] # US
LeafLabel(name) == LET i == LastUnderscore(name) IN
  Escape(SubSeq(name, 1, i - 1)) \o SUBSCRIPT \o Escape(SubSeq(name, i + 1, Len(name))) \o <<125>>

\* greedy wrapping of words of the given lengths: number of lines
GreedyLines(lens, w) ==
  LET st == FoldLeft(LAMBDA acc, n : IF acc.cur = 0 THEN [lines |-> acc.lines + 1, cur |-> n]
                                     ELSE IF acc.cur + 1 + n <= w THEN [lines |-> acc.lines, cur |-> acc.cur + 1 + n]
                                     ELSE [lines |-> acc.lines + 1, cur |-> n],
                     [lines |-> 0, cur |-> 0], lens)
  IN st.lines
\* the displayed lines of a wrapped label, as pairs <<length, number of spaces>>,
\* found by walking the expected text and the shown text together (Unbroken holds)
RECURSIVE ShownLines(_, _, _, _)
ShownLines(expected, shown, len, spaces) ==
  IF expected = <<>> THEN << <<len, spaces>> >>
  ELSE IF Head(expected) = SPC /\ Len(shown) >= 2 /\ shown[1] = BS /\ shown[2] = BS
       THEN << <<len, spaces>> >> \o ShownLines(Tail(expected), SubSeq(shown, 3, Len(shown)), 0, 0)
       ELSE ShownLines(Tail(expected), Tail(shown), len + 1, spaces + (IF Head(expected) = SPC THEN 1 ELSE 0))
\* word lengths of "f1, f2, f3": every family but the last carries its comma
LabelWordLens(fams) == [i \in DOMAIN fams |-> Len(fams[i]) + (IF i < Len(fams) THEN 1 ELSE 0)]
\* lines never exceed the width unless they hold a single word; no more lines than greedy wrapping
LabelWrapOK(fams, shown, w) ==
  LET want == JoinFams(fams)
      lines == ShownLines(want, shown, 0, 0)
  IN /\ \A i \in DOMAIN lines : lines[i][1] <= w \/ lines[i][2] = 0
     /\ Len(lines) <= GreedyLines(LabelWordLens(fams), w)

Sum(s) == FoldLeft(LAMBDA a, b : a + b, 0, s)
LineLen(line) == Sum(line) + Len(line) - 1
Flatten(lines) == FoldLeft(LAMBDA acc, ln : acc \o ln, <<>>, lines)
WrapClauses(lens, w, lines) ==
  (IF Flatten(lines) # lens \/ \E i \in DOMAIN lines : lines[i] = <<>> THEN {"ClauseWrapKeepsWords"} ELSE {})
  \cup (IF \E i \in DOMAIN lines : Len(lines[i]) > 1 /\ LineLen(lines[i]) > w THEN {"ClauseWrapWidth"} ELSE {})
  \cup (IF Len(lines) > GreedyLines(lens, w) THEN {"ClauseWrapNoMoreLinesThanGreedy"} ELSE {})
=============================================================================
