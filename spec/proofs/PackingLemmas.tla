--------------------------- MODULE PackingLemmas ---------------------------
(***************************************************************************)
(* The node step of the subtree packing (Packing!SizeV with GrowBox, i.e.  *)
(* _layout_subtrees after the repair of defect D9) for ALL integer sizes,  *)
(* proved with TLAPS.  TLC checks the same step over a few trunk sizes and *)
(* every shape (Packing.tla); this removes the bound on the sizes for the  *)
(* part of C14 that the repair is about: the trunk of an ancestral species *)
(* lies inside its subtree box, and the two child boxes lie inside it side *)
(* by side, whatever the widths.  (The horizontal case is the same         *)
(* statement with x and y exchanged: Packing!MirrorInv.)                   *)
(***************************************************************************)
EXTENDS Integers

Max2(a, b) == IF a >= b THEN a ELSE b

\* the quantities of Packing!SizeV: child box widths lw, rw; distance ltd from
\* the left child's trunk to the right edge of its box, rtd from the left edge of
\* the right child's box to its trunk; own trunk width tw; minimal spacing s
Sp(ltd, rtd, tw, s) == Max2(tw - (ltd + rtd), s)
W(lw, rw, sp) == lw + sp + rw
Tx(lw, sp, tw) == lw + (sp - tw) \div 2
Before(tx) == IF tx < 0 THEN -tx ELSE 0
After(tx, tw, w) == IF tx + tw > w THEN tx + tw - w ELSE 0

THEOREM GrowBoxHoldsTrunkAndChildren ==
  ASSUME NEW lw \in Int, NEW rw \in Int, NEW ltd \in Int, NEW rtd \in Int, NEW tw \in Int, NEW s \in Int,
         lw >= 0, rw >= 0, tw >= 0, s >= 0
  PROVE  LET sp == Sp(ltd, rtd, tw, s)
             w == W(lw, rw, sp)
             tx == Tx(lw, sp, tw)
             b == Before(tx)
             a == After(tx, tw, w)
             box == w + b + a           \* width of the grown box
             trunk == b + tx            \* position of the trunk in it
             lpos == b                  \* left child box
             rpos == b + lw + sp        \* right child box
         IN /\ sp >= s                              \* at least the minimal spacing
            /\ trunk >= 0 /\ trunk + tw <= box      \* the trunk lies inside the box (what D9 violated)
            /\ lpos >= 0 /\ lpos + lw <= rpos       \* the children are side by side, sp apart ...
            /\ rpos + rw <= box                     \* ... and inside the box
  BY DEF Sp, W, Tx, Before, After, Max2

\* Without the growth (box == w, trunk == tx: the pinned tree) tlapm fails on the
\* second conjunct; the check runs that variant as the binding self-test of the proof.

\* the spacing rule of the parent: the child trunks keep their distance
THEOREM SpacingClearsChildTrunks ==
  ASSUME NEW ltd \in Int, NEW rtd \in Int, NEW tw \in Int, NEW s \in Int
  PROVE  ltd + Sp(ltd, rtd, tw, s) + rtd >= tw
  BY DEF Sp, Max2
=============================================================================
