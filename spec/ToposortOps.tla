----------------------------- MODULE ToposortOps ---------------------------
(***************************************************************************)
(* Topological orderings (utils/toposort.py), declarative layer.           *)
(* A graph is a record [n |-> number of vertices 1..n, e |-> set of edges  *)
(* <<u, v>>]; self-loops are allowed.                                      *)
(***************************************************************************)
EXTENDS Integers, Sequences, FiniteSets, SequencesExt, FiniteSetsExt, Functions, TLC

Verts(G) == 1..G.n
Succs(G, u) == {v \in Verts(G) : <<u, v>> \in G.e}
Preds(G, v) == {u \in Verts(G) : <<u, v>> \in G.e}

Perms(S) == {p \in [1..Cardinality(S) -> S] : \A i, j \in DOMAIN p : i # j => p[i] # p[j]}
PosIn(p, x) == CHOOSE i \in DOMAIN p : p[i] = x
IsTopo(G, p) ==
  /\ Len(p) = G.n
  /\ {p[i] : i \in DOMAIN p} = Verts(G)
  /\ \A ed \in G.e : PosIn(p, ed[1]) < PosIn(p, ed[2])
\* all topological orderings, by permutation filtering (a self-loop or any
\* directed cycle leaves none)
AllOrders(G) == {p \in Perms(Verts(G)) : IsTopo(G, p)}

AllGraphs(n) == {[n |-> n, e |-> E] : E \in SUBSET ((1..n) \X (1..n))}
InDeg(G) == [v \in Verts(G) |-> Cardinality(Preds(G, v))]
\* a sequence of sequences as a bag: number of occurrences of x
Count(ss, x) == Cardinality({i \in DOMAIN ss : ss[i] = x})
=============================================================================
