----------------------------- MODULE TraceSubseq ---------------------------
(***************************************************************************)
(* Trace validation for utils/subsequences.py.  One NDJSON event per call: *)
(*  {"op":"segdist","child":c,"parent":p,"edges":true|false,"out":d}       *)
(*  {"op":"mask","child":[..],"parent":[..],"out":m}                        *)
(*  {"op":"subseq","mask":m,"parent":[..],"out":[..]}                       *)
(*  {"op":"complete","parent":[..],"out":m}                                 *)
(* Masks stay below 2^24 (TLC integers are 32 bit).                        *)
(***************************************************************************)
EXTENDS SubseqOps, Json, IOUtils, TLCExt

Log == ndJsonDeserialize(IOEnv.TRACE_FILE)

VARIABLES l
vars == <<l>>

Clauses(e) ==
  CASE e.op = "segdist" ->
         (IF (e.out = -1) # ~Contained(e.child, e.parent) THEN {"ClauseContained"} ELSE {})
         \cup (IF e.out # SegDist(e.child, e.parent, e.edges) THEN {"ClauseSegDist"} ELSE {})
    [] e.op = "mask" ->
         (IF e.out # MaskOf(e.child, e.parent) THEN {"ClauseMaskOf"} ELSE {})
         \cup (IF e.out \in 0..Complete(e.parent) /\ SubseqOf(e.out, e.parent) # e.child
               THEN {"ClauseRoundTrip"} ELSE {})
    [] e.op = "subseq" ->
         (IF e.out # SubseqOf(e.mask, e.parent) THEN {"ClauseSubseqOf"} ELSE {})
         \cup (IF MaskOf(e.out, e.parent) # e.mask THEN {"ClauseRoundTrip"} ELSE {})
    [] e.op = "complete" ->
         (IF e.out # Complete(e.parent) THEN {"ClauseComplete"} ELSE {})
    [] OTHER -> {"ClauseUnknownOp"}

Judge(e) ==
  LET bad == Clauses(e) IN
  IF bad = {} THEN TRUE
  ELSE PrintT(<<"VERDICT", e.n, bad>>) /\ TLCSet(1, TLCGet(1) + 1)

Init == l = 1 /\ TLCSet(1, 0)
Next == l <= Len(Log) /\ Judge(Log[l]) /\ l' = l + 1
Spec == Init /\ [][Next]_vars

Consumed ==
  /\ PrintT(<<"SUMMARY", TLCGet("stats").diameter - 1, Len(Log), TLCGet(1)>>)
  /\ TLCGet("stats").diameter - 1 = Len(Log)
=============================================================================
