----------------------------- MODULE DPEntryInd ----------------------------
(***************************************************************************)
(* Inductive form of the Entry contract (property C16) for Apalache: the   *)
(* candidate values range over ALL integers (TLC explores {0,1,2} only).   *)
(* The entry is (has, val, tags): `has` tells whether any candidate was    *)
(* offered (the code's +/- infinity).  IndInv is the contract itself;      *)
(*   Init => IndInv   and   IndInv /\ Next => IndInv'                      *)
(* are discharged by  apalache-mc check --init=IndInit --inv=IndInv        *)
(* --length=1  (see checks/c16.py, thorough tier).                         *)
(***************************************************************************)
EXTENDS Integers, FiniteSets, Apalache

CONSTANTS
  \* @type: Str;
  MP,
  \* @type: Str;
  RP,
  \* @type: Bool;
  StaleBug

VARIABLES
  \* @type: Bool;
  has,
  \* @type: Int;
  val,
  \* @type: Set(Str);
  tags,
  \* @type: Set(<<Int, Str>>);
  offered

Tags == {"a", "b", "c"}
NoTag == "none"

CInit == MP \in {"MIN", "MAX"} /\ RP \in {"NONE", "ANY", "ALL"} /\ StaleBug = FALSE
\* the defect of the pinned tree (tags kept on an untagged strict improvement): must be refuted
CInitBug == MP \in {"MIN", "MAX"} /\ RP \in {"NONE", "ANY", "ALL"} /\ StaleBug = TRUE

\* @type: (Int, Int) => Bool;
Better(a, b) == IF MP = "MIN" THEN a < b ELSE a > b

\* the contract: value = optimum of the offered values, tags = tags of optimal candidates
IsBest(v) == /\ \E c \in offered : c[1] = v
             /\ \A c \in offered : ~Better(c[1], v)
BestTags(v) == {c[2] : c \in {d \in offered : d[1] = v /\ d[2] # NoTag}}
Contract ==
  /\ has <=> offered # {}
  /\ ~has => tags = {}
  /\ has => /\ IsBest(val)
            /\ CASE RP = "NONE" -> tags = {}
                 [] RP = "ALL" -> tags = BestTags(val)
                 [] OTHER -> IF BestTags(val) = {} THEN tags = {}
                             ELSE \E t \in BestTags(val) : tags = {t}
TypeOK == /\ tags \subseteq Tags
          /\ \A c \in offered : c[2] \in Tags \cup {NoTag}
IndInv == TypeOK /\ Contract

Init == has = FALSE /\ val = 0 /\ tags = {} /\ offered = {}
\* an arbitrary state satisfying the invariant (offered bounded by 5 candidates)
IndInit == /\ has \in BOOLEAN /\ val \in Int
           /\ tags \in SUBSET Tags
           /\ offered = Gen(5)
           /\ IndInv

\* the two `if`s of Entry.update (repaired code) on one candidate <<v, t>>
Update(v, t) ==
  LET same == has /\ val = v
      tags1 == IF same /\ t # NoTag /\ (RP = "ALL" \/ (RP = "ANY" /\ tags = {})) THEN tags \cup {t} ELSE tags
      improve == ~has \/ Better(v, val)
  IN /\ has' = TRUE
     /\ val' = IF improve THEN v ELSE val
     /\ tags' = IF improve THEN (IF t # NoTag /\ RP # "NONE" THEN {t} ELSE IF StaleBug THEN tags1 ELSE {}) ELSE tags1
     /\ offered' = offered \cup {<<v, t>>}

Next == \E v \in Int : \E t \in Tags \cup {NoTag} : Update(v, t)
=============================================================================
