"""Projection of inputs / solutions to plain abstract documents (C11, C12),
in-process command-line runner and the stub TeX measurer (C12-C15)."""
import io
import json
import random
import sys

from . import mc, proj
from .proj import INF


def install_stub_measure(A, seed=0, lo=1, hi=100, record=None):
    """Replace superrec2.utils.tex.measure by a stub returning seeded integer box
    sizes in call order (no TeX engine in the sandbox)."""
    from superrec2.utils import tex
    rng = random.Random(seed)

    def stub(texts, preamble=""):
        texts = list(texts)
        if record is not None:
            record.append(texts)
        return [tex.MeasureBox(float(rng.randint(lo, hi)), float(rng.randint(lo, hi)), 0.0) for _ in texts]

    tex.measure = stub
    return stub


def tree_doc(tree):
    parents, nodes = proj.tree_to_parents(tree)
    return list(parents), [n.name for n in nodes], [getattr(n, "color", "") or "" for n in nodes], nodes


def cost_list(A, costs):
    ne, ee = A.model.NodeEvent, A.model.EdgeEvent
    out = []
    for key in (ne.SPECIATION, ne.DUPLICATION, ne.HORIZONTAL_TRANSFER, ee.FULL_LOSS, ee.SEGMENTAL_LOSS):
        val = costs.get(key)
        if val is None:
            out.append(-1)
        else:
            out.append(proj.cost_from_impl(A, val))
    return out


def document(A, obj):
    """Abstract document of a (Super)Reconciliation{Input,Output}: the fields
    property C11 lists.  Nodes are pre-order indices of the object's own trees."""
    out = obj if hasattr(obj, "object_species") else None
    inp = obj.input if out is not None else obj
    ot, onames, ocolors, onodes = tree_doc(inp.object_tree)
    st, snames, scolors, snodes = tree_doc(inp.species_lca.tree)
    oidx = {n: i for i, n in enumerate(onodes, start=1)}
    sidx = {n: i for i, n in enumerate(snodes, start=1)}
    doc = {"ot": ot, "onames": onames, "ocolors": ocolors, "st": st, "snames": snames, "scolors": scolors,
           "lm": sorted([oidx.get(o, 0), sidx.get(s, 0)] for o, s in inp.leaf_object_species.items()),
           "costs": cost_list(A, inp.costs), "m": [], "lab": [], "ordered": -1, "events": [], "cost": -1,
           "leafsyn": []}
    if hasattr(inp, "leaf_syntenies"):
        doc["leafsyn"] = sorted([oidx.get(o, 0), list(s) if not isinstance(s, set) else sorted(s)]
                                for o, s in inp.leaf_syntenies.items())
    if out is not None:
        doc["m"] = [sidx.get(out.object_species.get(n), 0) for n in onodes]
        if hasattr(out, "syntenies"):
            # an unordered labelling is a family *set* per node: compared in sorted order
            shape = list if out.ordered else sorted
            doc["lab"] = [shape(out.syntenies[n]) if n in out.syntenies else ["?"] for n in onodes]
            doc["ordered"] = 1 if out.ordered else 0
        events = mc.safe(lambda: [out.node_event(n).name for n in onodes])
        cost = mc.safe(lambda: proj.cost_from_impl(A, out.cost()))
        doc["events"] = events if not isinstance(events, mc.Raised) else ["?"]
        doc["cost"] = cost if not isinstance(cost, mc.Raised) else -2
    return doc


def parse_line(A, data):
    """A written JSON object -> model object, as `draw` reads it."""
    if "syntenies" in data:
        return A.model.SuperReconciliationOutput.from_dict(data)
    if "object_species" in data:
        return A.model.ReconciliationOutput.from_dict(data)
    if "leaf_syntenies" in data:
        return A.model.SuperReconciliationInput.from_dict(data)
    return A.model.ReconciliationInput.from_dict(data)


class _Out(io.StringIO):
    def __init__(self):
        super().__init__()
        self.buffer = io.BytesIO()


_HUNG = [0]


def run_cli(argv, stdin_text, limit=120):
    """python -m superrec2.cli <argv> in-process; returns (status, stdout, stderr).
    A call takes well under a second; one that has not returned after `limit`
    seconds is reported as such, and after two of them in one process the
    remaining calls of that process are not attempted any more."""
    from superrec2.cli import __main__ as cli
    if _HUNG[0] >= 2:
        return mc.Raised(TimeoutError("not attempted: two earlier command-line calls did not return")), "", ""
    old = (sys.argv, sys.stdin, sys.stdout, sys.stderr)
    out, err = _Out(), io.StringIO()
    sys.argv, sys.stdin, sys.stdout, sys.stderr = ["superrec2"] + list(argv), io.StringIO(stdin_text), out, err

    def call():
        try:
            return cli.run()
        except SystemExit as exc:
            return exc.code

    try:
        status = mc.safe(call, _limit=limit)
        if isinstance(status, mc.Raised) and "no result after" in status.text:
            _HUNG[0] += 1
    finally:
        sys.argv, sys.stdin, sys.stdout, sys.stderr = old
    text = out.getvalue() + out.buffer.getvalue().decode("utf8", "replace")
    return status, text, err.getvalue()
