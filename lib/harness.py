"""Shared run context: seeds, verdicts, replay files, known findings, evidence."""
import json
import os
import sys
import time

VERIF = os.path.dirname(os.path.dirname(os.path.abspath(__file__)))
REPO = os.environ.get("VERIF_REPO", "/repo")
GUARD = "SUPERREC2_VERIF"


def setup_repo_path():
    """Make `import superrec2` resolve to /repo's working tree."""
    src = os.path.join(REPO, "src")
    if src not in sys.path:
        sys.path.insert(0, src)
    os.environ.setdefault("TQDM_DISABLE", "1")
    for name in [n for n in sys.modules if n == "superrec2" or n.startswith("superrec2.")]:
        del sys.modules[name]


class Context:
    """One run of one check."""

    def __init__(self, prop, tier="quick", seed=0, level="model_checking"):
        self.prop = prop
        self.tier = tier
        self.seed = seed
        self.level = level
        self.start = time.time()
        self.violations = []
        self.known_hits = []
        self.notes = []
        self.drift = []
        self.samples = []
        self.states = 0
        self.transitions = 0
        self.traces = 0
        self.evaluations = 0
        self.nontrivial = set()
        self.nontrivial_extra = 0
        self.tlc_runs = []
        self.extra = {}
        self.assumptions = []
        self.rule = ""
        self.exhaustive = None
        self.replay_dir = os.path.join(VERIF, "replays" if REPO == "/repo" else ".work/replays-scratch", prop)
        self.known = load_known(prop)
        self._replay_n = 0

    # -- bookkeeping -----------------------------------------------------
    def add_tlc(self, name, res):
        self.states += res.distinct
        self.transitions += res.generated
        self.tlc_runs.append(dict(name=name, **res.summary()))

    def sample(self, obj, limit=6):
        if len(self.samples) < limit:
            self.samples.append(obj)

    def count(self, key=None, nontrivial=True, n=1):
        self.evaluations += n
        if nontrivial and key is not None:
            self.nontrivial.add(key)

    def note(self, text):
        self.notes.append(text)

    def stage(self, name):
        """Record the wall time of the stage that just ended."""
        now = time.time()
        last = getattr(self, "_stage_t", self.start)
        self.extra.setdefault("stage_wall_s", {})[name] = round(now - last, 1)
        self._stage_t = now

    # -- verdicts --------------------------------------------------------
    def violation(self, what, replay):
        """Record a violation; `replay` is a JSON-able description of the case."""
        finding = match_known(self.known, replay, what)
        if finding is not None:
            if finding["id"] not in [k["id"] for k in self.known_hits]:
                self.known_hits.append(finding)
                print(f"KNOWN-FINDING: property={self.prop} {finding['id']}: {finding['what']}", flush=True)
            return False
        os.makedirs(self.replay_dir, exist_ok=True)
        self._replay_n += 1
        path = os.path.join(self.replay_dir, f"{self.tier}-{self._replay_n}.json")
        if len(self.violations) < 10:
            with open(path, "w", encoding="utf-8") as handle:
                json.dump({"property": self.prop, "what": what, "seed": self.seed,
                           "tier": self.tier, "case": replay}, handle, indent=1, default=str)
            print(f"VIOLATION property={self.prop} replay={path}", flush=True)
            print(f"  {what}", flush=True)
        self.violations.append(what)
        return True

    def finish(self):
        wall = time.time() - self.start
        coverage = {
            "states": self.states,
            "transitions": self.transitions,
            "traces_validated_against_impl": self.traces,
            "evaluations": self.evaluations,
            "distinct_nontrivial": len(self.nontrivial) + self.nontrivial_extra,
            "rule": self.rule,
            "samples": self.samples or ["(none)"],
            "tlc_runs": self.tlc_runs,
            "known_findings_reported": [k["id"] for k in self.known_hits],
            "drift": self.drift[:20],
            "notes": self.notes,
        }
        if self.exhaustive is not None:
            coverage["exhaustive"] = self.exhaustive
        coverage.update(self.extra)
        evidence = {
            "property_id": self.prop,
            "tier": self.tier,
            "seed": self.seed,
            "level": self.level,
            "coverage": coverage,
            "assumptions": self.assumptions,
            "wall_s": round(wall, 2),
            "violations": len(self.violations),
        }
        # runs against a scratch copy (seeded changes, mutants) leave the committed evidence alone
        evdir = os.path.join(VERIF, "evidence") if REPO == "/repo" else os.path.join(VERIF, ".work", "evidence-scratch")
        os.makedirs(evdir, exist_ok=True)
        path = os.path.join(evdir, f"{self.prop}.json")
        with open(path, "w", encoding="utf-8") as handle:
            json.dump(evidence, handle, indent=1, default=str)
            handle.write("\n")
        status = "HELD" if not self.violations else f"{len(self.violations)} VIOLATION(S)"
        print(f"[{self.prop}] {status}: states={self.states} transitions={self.transitions} "
              f"impl-validated={self.traces} evaluations={self.evaluations} "
              f"nontrivial={coverage['distinct_nontrivial']} wall={wall:.1f}s", flush=True)
        return 1 if self.violations else 0


def load_known(prop):
    path = os.path.join(VERIF, "known_findings.json")
    if not os.path.exists(path):
        return []
    with open(path, encoding="utf-8") as handle:
        data = json.load(handle)
    return [f for f in data.get("findings", [])
            if f.get("status") == "known" and prop in f.get("properties", [f.get("property")])]


def _canon(obj):
    return json.dumps(obj, sort_keys=True, default=str)


def match_known(known, replay, what):
    """A known finding matches only its own witness: same projected input and
    same algorithm (field `match` of the finding is compared key by key)."""
    for finding in known:
        want = finding.get("match")
        if not want or not isinstance(replay, dict):
            continue
        if all(_canon(replay.get(key)) == _canon(val) for key, val in want.items()):
            return finding
    return None
