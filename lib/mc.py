"""Small helpers shared by the checks: run a TLC exploration and account for it,
run a trace validation and turn verdicts into violations, binding self-tests."""
import os
import shutil
import signal
import threading

from . import tlc, tlaval, trace
from .tlc import MachineryError


class Raised:
    """Result of a call into the code under test that raised."""

    def __init__(self, err):
        import traceback
        tb = traceback.extract_tb(err.__traceback__)
        where = f"{os.path.basename(tb[-1].filename)}:{tb[-1].lineno}" if tb else "?"
        self.text = f"{type(err).__name__}: {err} @ {where}"

    def __repr__(self):
        return f"<raised {self.text}>"

    def __eq__(self, other):
        return False

    def __hash__(self):
        return hash(self.text)


class CallTimeout(BaseException):
    """A call into the code under test did not return within CALL_LIMIT_S."""


# Calls into the code under test take milliseconds to a few seconds; one that
# has not returned after this many seconds (generous enough for a loaded
# machine) is reported as "does not return" instead of hanging the check.
CALL_LIMIT_S = float(os.environ.get("VERIF_CALL_LIMIT_S", "300"))
_depth = [0]
_timeouts = [0]   # after two calls of this process did not return, further calls are not attempted


def _expired(signum, frame):
    raise CallTimeout()


def safe(fn, *args, _limit=None, **kwargs):
    """Call into the code under test; an exception becomes a Raised value (it is
    a finding about the code, never a failure of the machinery), and so does a
    call that does not return within CALL_LIMIT_S (or `_limit` seconds)."""
    armed = False
    limit = CALL_LIMIT_S if _limit is None else _limit
    if _timeouts[0] >= 2 and _depth[0] == 0:
        return Raised(TimeoutError("not attempted: two earlier calls into the code under test did not return"))
    if _depth[0] == 0 and threading.current_thread() is threading.main_thread():
        try:
            signal.signal(signal.SIGALRM, _expired)
            signal.setitimer(signal.ITIMER_REAL, limit)
            armed = True
        except (ValueError, OSError):
            armed = False
    _depth[0] += 1
    try:
        return fn(*args, **kwargs)
    except CallTimeout:
        if not armed:
            raise
        _timeouts[0] += 1
        err = TimeoutError(f"no result after {limit:.0f} s")
        return Raised(err)
    except RecursionError as err:
        return Raised(err)
    except Exception as err:  # pylint: disable=broad-except
        return Raised(err)
    finally:
        _depth[0] -= 1
        if armed:
            signal.setitimer(signal.ITIMER_REAL, 0)


def explore(ctx, module, name, spec="Spec", constants=None, invariants=(), properties=(),
            constraints=(), dump=False, expect_violation=False, timeout=3000, workers=16,
            mc_text=None, mc_name=None, heap=None, account=True, deadlock=False, view=None):
    """Run TLC on spec/<module>.tla (or on a literal wrapper module `mc_text`
    that EXTENDS it).  Returns (res, states); states is the list of dumped states
    when dump=True.  A violated invariant is reported through ctx.violation unless
    expect_violation (self-tests), in which case the caller looks at res.ok."""
    wdir = tlc.make_workdir("verif-mc-")
    try:
        target = module
        if mc_text is not None:
            mc_name = mc_name or f"MC_{module}"
            target = os.path.join(wdir, f"{mc_name}.tla")
            with open(target, "w", encoding="utf-8") as handle:
                handle.write(f"---- MODULE {mc_name} ----\nEXTENDS {module}\n{mc_text}\n====\n")
        cfg = os.path.join(wdir, "mc.cfg")
        tlc.write_cfg(cfg, spec=spec, constants=constants or {}, invariants=invariants,
                      properties=properties, constraints=constraints, deadlock=deadlock, view=view)
        res = tlc.run(target, cfg, dump=dump, workdir=wdir, timeout=timeout, workers=workers, heap=heap)
        if expect_violation:
            return res, []
        if account:
            ctx.add_tlc(name, res)
        if not res.ok:
            ctx.violation(f"specification ({name}): {','.join(res.violated)} violated",
                          {"engine": "E1", "module": module, "trace": tlc.counterexample(res)[:6000]})
        states = list(tlaval.read_dump(res.dump)) if dump and res.dump and os.path.exists(res.dump) else []
        return res, states
    finally:
        shutil.rmtree(wdir, ignore_errors=True)


def refuted(ctx, module, name, **kwargs):
    """Binding self-test: the model with a defect constant switched on must be
    refuted by TLC; raises MachineryError otherwise."""
    res, _ = explore(ctx, module, name, expect_violation=True, **kwargs)
    if res.ok:
        raise MachineryError(f"self-test: {name} was not refuted by TLC")
    ctx.note(f"self-test: {name} refuted by TLC ({','.join(res.violated)})")


def validate_sessions(ctx, module, sessions, constants=None, relevant=None, describe=None,
                      jobs=16, heap=None, count_traces=None, timeout=3600):
    """Trace validation of recorded sessions (lists of events).  Verdicts whose
    clauses are in `relevant` (all when None) become violations.  Returns the
    verdict list [(event, clauses)]."""
    sessions = [s for s in sessions if s]
    if not sessions:
        return []
    chunks, index = trace.split_sessions(sessions, jobs)
    verdicts, stats = trace.validate(module, chunks, constants or {}, jobs=jobs, heap=heap, timeout=timeout)
    ctx.states += stats["states"]
    ctx.transitions += stats["transitions"]
    ctx.traces += len(sessions) if count_traces is None else count_traces
    ctx.evaluations += stats["events"]
    ctx.extra["e3_events"] = ctx.extra.get("e3_events", 0) + stats["events"]
    out = []
    for n, clauses in verdicts:
        if relevant is not None:
            clauses = [c for c in clauses if c in relevant]
        if not clauses:
            continue
        event = index[n]
        out.append((event, clauses))
        what = describe(event, clauses) if describe else f"recorded {event.get('op')} event fails {clauses}"
        case = {"engine": "E3", "event": event, "clauses": clauses}
        if "in" in event:
            case["input"] = event["in"]
        if "algo" in event:
            case["algo"] = event["algo"]
        ctx.violation(what, case)
    return out


def trace_selftest(ctx, module, session, corrupt, constants=None, what="one corrupted field"):
    """Binding self-test of the trace direction: the literal `session` (written
    by hand, independent of the code under test) must be accepted and
    `corrupt(session)`, a modified copy, must be rejected."""
    good = [dict(e) for e in session]
    bad = corrupt([dict(e) for e in session])
    chunks, _ = trace.split_sessions([good + bad], 1)
    verdicts, _ = trace.validate(module, chunks, constants or {}, jobs=1)
    if any(n <= len(good) for n, _ in verdicts):
        raise MachineryError(f"self-test: a correct literal trace was rejected by {module}: {verdicts}")
    if not verdicts:
        raise MachineryError(f"self-test: a trace with {what} was accepted by {module}")
    ctx.note(f"self-test: a literal trace was accepted and the same trace with {what} rejected by {module}")
