"""Reader and writer for TLA+ values as printed by TLC (-dump, PrintT).

Python image of a TLA+ value:
  integer -> int, string -> str, TRUE/FALSE -> bool,
  <<a, b>> -> tuple, {a, b} -> frozenset,
  [k |-> v, ...] -> Rec (dict subclass, hashable),
  (k :> v @@ ...) -> Fn (dict subclass, hashable).
A function whose domain is 1..n is printed by TLC as a sequence and is read
back as a tuple.
"""
import re


class Rec(dict):
    """A TLA+ record."""

    def __hash__(self):
        return hash(("rec", frozenset(self.items())))

    def __getattr__(self, key):
        try:
            return self[key]
        except KeyError as err:
            raise AttributeError(key) from err


class Fn(dict):
    """A TLA+ function that is neither a sequence nor a record."""

    def __hash__(self):
        return hash(("fn", frozenset(self.items())))


_TOKEN = re.compile(
    r"\s*(<<|>>|\|->|:>|@@|\[|\]|\{|\}|\(|\)|,|-?\d+\.\.-?\d+|-?\d+|\"(?:[^\"\\]|\\.)*\"|[A-Za-z_][A-Za-z0-9_]*)"
)


class TlaParseError(ValueError):
    pass


class _Parser:
    def __init__(self, text, pos=0):
        self.text = text
        self.pos = pos

    def peek(self):
        match = _TOKEN.match(self.text, self.pos)
        if not match:
            return None
        return match.group(1)

    def next(self):
        match = _TOKEN.match(self.text, self.pos)
        if not match:
            raise TlaParseError(f"unexpected input at {self.pos}: {self.text[self.pos:self.pos+40]!r}")
        self.pos = match.end()
        return match.group(1)

    def expect(self, tok):
        got = self.next()
        if got != tok:
            raise TlaParseError(f"expected {tok!r}, got {got!r} at {self.pos}")

    def value(self):
        tok = self.next()
        if tok == "<<":
            items = []
            if self.peek() == ">>":
                self.next()
                return ()
            while True:
                items.append(self.value())
                tok = self.next()
                if tok == ">>":
                    return tuple(items)
                if tok != ",":
                    raise TlaParseError(f"bad sequence separator {tok!r}")
        if tok == "{":
            items = []
            if self.peek() == "}":
                self.next()
                return frozenset()
            while True:
                items.append(self.value())
                tok = self.next()
                if tok == "}":
                    return frozenset(items)
                if tok != ",":
                    raise TlaParseError(f"bad set separator {tok!r}")
        if tok == "[":
            rec = Rec()
            while True:
                key = self.next()
                self.expect("|->")
                rec[key] = self.value()
                tok = self.next()
                if tok == "]":
                    return rec
                if tok != ",":
                    raise TlaParseError(f"bad record separator {tok!r}")
        if tok == "(":
            fun = Fn()
            while True:
                key = self.value()
                self.expect(":>")
                fun[key] = self.value()
                tok = self.next()
                if tok == ")":
                    return fun
                if tok != "@@":
                    raise TlaParseError(f"bad function separator {tok!r}")
        if tok == "TRUE":
            return True
        if tok == "FALSE":
            return False
        if tok[0] == '"':
            return tok[1:-1].replace('\\"', '"').replace("\\\\", "\\")
        if ".." in tok:   # an interval a..b printed unexpanded
            lo, hi = tok.split("..")
            return frozenset(range(int(lo), int(hi) + 1))
        if tok[0] == "-" or tok[0].isdigit():
            return int(tok)
        raise TlaParseError(f"unexpected token {tok!r} at {self.pos}")


def parse(text):
    """Parse one TLA+ value."""
    parser = _Parser(text)
    value = parser.value()
    if text[parser.pos:].strip():
        raise TlaParseError(f"trailing input: {text[parser.pos:parser.pos+40]!r}")
    return value


_STATE_HEAD = re.compile(r"^State (\d+):\s*$", re.M)
_VAR = re.compile(r"\s*(?:/\\)?\s*([A-Za-z_][A-Za-z0-9_]*)\s*=\s*")


def parse_state_body(body):
    """Parse the `/\\ var = value` conjunction of one dumped state."""
    state = {}
    parser = _Parser(body)
    while True:
        match = _VAR.match(body, parser.pos)
        if not match:
            break
        parser.pos = match.end()
        state[match.group(1)] = parser.value()
    if body[parser.pos:].strip():
        raise TlaParseError(f"trailing input in state: {body[parser.pos:parser.pos+60]!r}")
    return state


def read_dump(path):
    """Yield the states of a TLC `-dump` file as dicts variable -> value."""
    with open(path, encoding="utf-8") as handle:
        text = handle.read()
    heads = list(_STATE_HEAD.finditer(text))
    for i, head in enumerate(heads):
        end = heads[i + 1].start() if i + 1 < len(heads) else len(text)
        yield parse_state_body(text[head.end():end])


def to_tla(value):
    """Print a Python image back as a TLA+ expression."""
    if isinstance(value, bool):
        return "TRUE" if value else "FALSE"
    if isinstance(value, int):
        return str(value)
    if isinstance(value, str):
        return '"' + value.replace("\\", "\\\\").replace('"', '\\"') + '"'
    if isinstance(value, (tuple, list)):
        return "<<" + ", ".join(to_tla(v) for v in value) + ">>"
    if isinstance(value, (set, frozenset)):
        return "{" + ", ".join(sorted(to_tla(v) for v in value)) + "}"
    if isinstance(value, Fn):
        if not value:
            return "<<>>"
        return "(" + " @@ ".join(f"{to_tla(k)} :> {to_tla(v)}" for k, v in value.items()) + ")"
    if isinstance(value, dict):
        if not value:
            return "<<>>"
        return "[" + ", ".join(f"{k} |-> {to_tla(v)}" for k, v in value.items()) + "]"
    raise TypeError(f"cannot print {value!r} as TLA+")


def to_py(value):
    """Turn a parsed value into plain JSON-able Python (for replay files)."""
    if isinstance(value, Fn):
        return {"$fn": [[to_py(k), to_py(v)] for k, v in value.items()]}
    if isinstance(value, dict):
        return {k: to_py(v) for k, v in value.items()}
    if isinstance(value, (tuple, list)):
        return [to_py(v) for v in value]
    if isinstance(value, (set, frozenset)):
        return {"$set": sorted((to_py(v) for v in value), key=repr)}
    return value
