"""Code -> specification: validate recorded executions with TLC trace specs."""
import json
import os
import shutil
from concurrent.futures import ThreadPoolExecutor

from . import tlc
from .tlc import MachineryError


def split_sessions(sessions, nfiles):
    """Distribute self-contained sessions (lists of events) over nfiles chunks,
    renumbering events with a global serial `n`."""
    chunks = [[] for _ in range(max(1, min(nfiles, len(sessions))))]
    sizes = [0] * len(chunks)
    serial = 0
    index = {}
    for session in sorted(sessions, key=len, reverse=True):
        k = sizes.index(min(sizes))
        for event in session:
            serial += 1
            event = dict(event)
            event["n"] = serial
            index[serial] = event
            chunks[k].append(event)
        sizes[k] += len(session)
    return [c for c in chunks if c], index


def _no_null(value):
    """The Json module of TLC cannot read null: a None that changed code put into
    an observation becomes the string "<null>" (no specification value equals it)."""
    if value is None:
        return "<null>"
    if isinstance(value, dict):
        return {k: _no_null(v) for k, v in value.items()}
    if isinstance(value, (list, tuple)):
        return [_no_null(v) for v in value]
    return value


def validate(module, chunks, constants, name="trace", jobs=16, heap=None, timeout=3600,
             extra_env=None):
    """Run one TLC per chunk (each single-worker) over spec/<module>.tla.

    Returns (verdicts, stats): verdicts is a list of (n, sorted clause names) for
    every event with a failing clause; stats has states/transitions/events.
    The trace spec must print <<"VERDICT", n, {clauses}>> per failing event and
    <<"SUMMARY", consumed, total, nbad>> from its POSTCONDITION."""
    # several checks running side by side (mutation campaigns, seed sweeps) cap
    # the number of JVMs each may hold at once
    jobs = max(1, min(jobs, int(os.environ.get("VERIF_MAX_JVMS", jobs))))
    workroot = tlc.make_workdir("verif-trace-")
    verdicts = []
    stats = {"states": 0, "transitions": 0, "events": 0, "files": len(chunks), "wall_s": 0.0}

    def one(idx):
        wdir = os.path.join(workroot, f"c{idx}")
        os.makedirs(wdir)
        path = os.path.join(wdir, "trace.ndjson")
        with open(path, "w", encoding="utf-8") as handle:
            for event in chunks[idx]:
                handle.write(json.dumps(_no_null(event), separators=(",", ":")) + "\n")
        cfg = os.path.join(wdir, "trace.cfg")
        tlc.write_cfg(cfg, spec="Spec", constants=constants, postcondition="Consumed")
        env = {"TRACE_FILE": path}
        if extra_env:
            env.update(extra_env)
        res = tlc.run(module, cfg, workers=1, env=env, timeout=timeout, workdir=wdir,
                      heap=heap, extra=())
        return res

    try:
        with ThreadPoolExecutor(max_workers=jobs) as pool:
            results = list(pool.map(one, range(len(chunks))))
    except MachineryError:
        shutil.rmtree(workroot, ignore_errors=True)
        raise
    for idx, res in enumerate(results):
        if res.exit != 0:
            shutil.rmtree(workroot, ignore_errors=True)
            raise MachineryError(f"trace spec {module} rejected chunk {idx}: "
                                 + "\n".join(res.out.strip().splitlines()[-30:]))
        summary = tlc.printed(res, "SUMMARY")
        if not summary or summary[-1][1] != len(chunks[idx]) or summary[-1][2] != len(chunks[idx]):
            shutil.rmtree(workroot, ignore_errors=True)
            raise MachineryError(f"trace spec {module} did not consume chunk {idx}: {summary}")
        found = tlc.printed(res, "VERDICT")
        if len(found) != summary[-1][3]:
            shutil.rmtree(workroot, ignore_errors=True)
            raise MachineryError(f"trace spec {module}: {summary[-1][3]} bad events counted, "
                                 f"{len(found)} verdict lines read")
        for verdict in found:
            verdicts.append((verdict[1], sorted(verdict[2])))
        stats["states"] += res.distinct
        stats["transitions"] += res.generated
        stats["events"] += len(chunks[idx])
        stats["wall_s"] = max(stats["wall_s"], res.wall)
    shutil.rmtree(workroot, ignore_errors=True)
    return verdicts, stats
