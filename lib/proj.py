"""Projection between superrec2 objects and the abstract values of the
specification (the abstraction function, used by both conformance directions).

A tree is its pre-order parent array (1-based, 0 for the root, children in the
order the code stores them); a node is its pre-order index; a species mapping is
the tuple m[1..N]; costs are a record with `inf` sent to 1000000."""
from .harness import setup_repo_path
from .tlaval import Rec

INF = 1000000


def api():
    """Import superrec2 from /repo's working tree (fresh on every call site)."""
    setup_repo_path()
    import infinity
    from ete3 import Tree
    from superrec2.model import reconciliation as model
    from superrec2.utils import trees as utrees
    from superrec2.utils import dynamic_programming as dp

    class Api:
        pass

    out = Api()
    out.inf = infinity.inf
    out.Tree = Tree
    out.model = model
    out.trees = utrees
    out.dp = dp
    return out


# ---------------------------------------------------------------- trees
def build_tree(Tree, parents, prefix, names=None):
    """ete3 tree from a parent array; returns (root, nodes) with nodes[i-1] the
    node of index i.  Node i is called names[i-1] or f"{prefix}{i}"."""
    nodes = []
    for i, par in enumerate(parents, start=1):
        node = Tree(name=(names[i - 1] if names else f"{prefix}{i}"))
        nodes.append(node)
        if par:
            nodes[par - 1].add_child(node)
    return nodes[0], nodes


def tree_to_parents(tree):
    """Parent array and node list (pre-order, stored child order) of an ete3 tree."""
    nodes = list(tree.traverse("preorder"))
    index = {node: i for i, node in enumerate(nodes, start=1)}
    parents = tuple(0 if node.up is None or node is tree else index[node.up] for node in nodes)
    return parents, nodes


def leaves_of(parents):
    inner = set(parents)
    return [u for u in range(1, len(parents) + 1) if u not in inner]


def children_of(parents, u):
    return [v for v in range(1, len(parents) + 1) if parents[v - 1] == u]


def clades(parents):
    """frozenset of leaf indices below every node."""
    n = len(parents)
    below = [set() for _ in range(n + 1)]
    inner = set(parents)
    for u in range(n, 0, -1):
        if u not in inner:
            below[u].add(u)
        if parents[u - 1]:
            below[parents[u - 1]] |= below[u]
    return [frozenset(below[u]) for u in range(1, n + 1)]


# ---------------------------------------------------------------- costs
COST_KEYS = ("spe", "dup", "hgt", "floss", "sloss")


def costs_to_impl(A, c):
    ne, ee = A.model.NodeEvent, A.model.EdgeEvent

    def val(x):
        return A.inf if x >= INF else x

    return {ne.SPECIATION: val(c["spe"]), ne.DUPLICATION: val(c["dup"]),
            ne.HORIZONTAL_TRANSFER: val(c["hgt"]), ee.FULL_LOSS: val(c["floss"]),
            ee.SEGMENTAL_LOSS: val(c["sloss"])}


def cost_from_impl(A, value):
    if value == A.inf:
        return INF
    if value == -A.inf:
        return -INF
    if isinstance(value, float):
        if value == float("inf"):
            return INF
        if value != int(value):
            raise ValueError(f"non-integral cost {value}")
    value = int(value)
    # TLC integers are 32-bit: a finite cost that large cannot be right, any
    # representable value far from every real cost gives the same verdict
    return max(-(10 ** 9), min(10 ** 9, value))


def coherent_dtl(c):
    return c["spe"] <= c["dup"] + 2 * c["floss"]


def coherent(c):
    return c["spe"] + 2 * c["sloss"] <= c["dup"] + 2 * c["floss"]


# ---------------------------------------------------------------- inputs
class Built:
    """A reconciliation input built from its abstract description."""


def build_input(A, inp, syn=None, unordered=False, root_syn=None, naming="unique"):
    """inp: record with ot, st, lm (0 on internal nodes), c.  syn: optional
    tuple of leaf syntenies (tuple of family ids per object node, () on internal
    nodes).  Returns a Built with the superrec2 input and the node tables."""
    out = Built()
    out.ot, out.st = tuple(inp["ot"]), tuple(inp["st"])
    out.otree, out.onodes = build_tree(A.Tree, out.ot, "o")
    out.stree, out.snodes = build_tree(A.Tree, out.st, "s")
    if naming == "unnamed":   # ancestral nodes without labels, as in the README example
        for node in out.onodes + out.snodes:
            if node.children:
                node.name = ""
    out.oindex = {node: i for i, node in enumerate(out.onodes, start=1)}
    out.sindex = {node: i for i, node in enumerate(out.snodes, start=1)}
    leaf_map = {out.onodes[u - 1]: out.snodes[inp["lm"][u - 1] - 1] for u in leaves_of(out.ot)}
    costs = costs_to_impl(A, inp["c"])
    lca = A.trees.LowestCommonAncestor(out.stree)
    if syn is None:
        out.input = A.model.ReconciliationInput(out.otree, lca, leaf_map, costs)
    else:
        leaf_syn = {}
        for u in leaves_of(out.ot):
            fams = [f"f{f}" for f in syn[u - 1]]
            leaf_syn[out.onodes[u - 1]] = set(fams) if unordered else fams
        if root_syn is not None:
            leaf_syn[out.otree] = [f"f{f}" for f in root_syn]
        out.input = A.model.SuperReconciliationInput(out.otree, lca, leaf_map, costs, leaf_syn)
    return out


def mapping_of(built, output):
    """Project the species mapping of an output onto the tuple m[1..N];
    missing nodes are reported as 0."""
    return tuple(built.sindex.get(output.object_species.get(node), 0) for node in built.onodes)


def make_output(A, built, m):
    mapping = {built.onodes[u - 1]: built.snodes[m[u - 1] - 1] for u in range(1, len(m) + 1)}
    return A.model.ReconciliationOutput(built.input, mapping)


def fam_id(name):
    return int(name[1:])


def inp_record(ot, st, lm, c):
    return Rec(ot=tuple(ot), st=tuple(st), lm=tuple(lm), c=Rec(c))


def inp_to_json(inp):
    return {"ot": list(inp["ot"]), "st": list(inp["st"]), "lm": list(inp["lm"]),
            "c": {k: inp["c"][k] for k in COST_KEYS}}


def malformed(trees):
    """Why the returned objects are not self-contained trees (a node whose
    parent link disagrees with the child lists, or a node shared by two
    results), None when they are."""
    seen = {}
    for k, tree in enumerate(trees):
        if tree is None:
            continue
        if tree.up is not None:
            return f"result {k} is attached below another node"
        for node in tree.traverse():
            if id(node) in seen and seen[id(node)] != k:
                return f"results {seen[id(node)]} and {k} share a node object"
            seen[id(node)] = k
            if any(child.up is not node for child in node.children):
                return f"result {k}: a child's parent link does not point to its parent"
    return None
