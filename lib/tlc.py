"""Run TLC on modules of /verif/spec and read back what it reports."""
import os
import re
import shutil
import subprocess
import tempfile
import time

SPEC_DIR = os.path.join(os.path.dirname(os.path.dirname(os.path.abspath(__file__))), "spec")
JAR = "/opt/veriftools/tla/tla2tools.jar:/opt/veriftools/tla/CommunityModules-deps.jar"


class MachineryError(RuntimeError):
    """The verification machinery itself failed (exit status 2)."""


class TlcResult:
    def __init__(self):
        self.exit = None
        self.out = ""
        self.generated = 0
        self.distinct = 0
        self.depth = 0
        self.wall = 0.0
        self.violated = []  # names of violated invariants / properties
        self.ok = False
        self.workdir = None
        self.dump = None

    def summary(self):
        return {
            "exit": self.exit,
            "states_generated": self.generated,
            "distinct_states": self.distinct,
            "depth": self.depth,
            "wall_s": round(self.wall, 2),
            "violated": self.violated,
        }


_GEN = re.compile(r"(\d+) states generated, (\d+) distinct states found")
_DEPTH = re.compile(r"The depth of the complete state graph search is (\d+)")
_VIOL = re.compile(r"Error: (?:Invariant|Action property|Temporal property) (\S+) (?:is|was) violated")
_POST = re.compile(r"Error: (?:The postcondition|Postcondition) (\S+)?")


def make_workdir(prefix="verif-tlc-"):
    return tempfile.mkdtemp(prefix=prefix)


def write_cfg(path, spec=None, init=None, next_=None, constants=None, invariants=(),
              properties=(), constraints=(), action_constraints=(), postcondition=None,
              view=None, deadlock=False, symmetry=None):
    lines = []
    if spec:
        lines.append(f"SPECIFICATION {spec}")
    if init:
        lines.append(f"INIT {init}")
    if next_:
        lines.append(f"NEXT {next_}")
    if constants:
        lines.append("CONSTANTS")
        for key, val in constants.items():
            lines.append(f"  {key} {val}" if val.startswith("<-") else f"  {key} = {val}")
    for inv in invariants:
        lines.append(f"INVARIANT {inv}")
    for prop in properties:
        lines.append(f"PROPERTY {prop}")
    for con in constraints:
        lines.append(f"CONSTRAINT {con}")
    for con in action_constraints:
        lines.append(f"ACTION_CONSTRAINT {con}")
    if postcondition:
        lines.append(f"POSTCONDITION {postcondition}")
    if view:
        lines.append(f"VIEW {view}")
    if symmetry:
        lines.append(f"SYMMETRY {symmetry}")
    lines.append(f"CHECK_DEADLOCK {'TRUE' if deadlock else 'FALSE'}")
    with open(path, "w", encoding="utf-8") as handle:
        handle.write("\n".join(lines) + "\n")


def run(module, cfg, workers=16, dump=False, env=None, timeout=3600, extra=(),
        workdir=None, heap=None, simulate=None, keep=False, depth=None, seed=None):
    """Run TLC on spec/<module>.tla with the given cfg file.

    Returns a TlcResult; raises MachineryError when TLC could not run the
    model at all (parse error, evaluation error, timeout)."""
    res = TlcResult()
    own = workdir is None
    if own:
        workdir = make_workdir()
    res.workdir = workdir
    module_path = module if module.endswith(".tla") else os.path.join(SPEC_DIR, module + ".tla")
    # Page faults are very expensive in this sandbox (about 7 s of system time
    # per GB touched): small fixed heaps and few GC threads are several times
    # faster than the JVM defaults (14 GB heap, 16 GC threads).
    workers = max(1, min(workers, int(os.environ.get("VERIF_MAX_WORKERS", workers))))
    heap_mb = int(heap) if heap else (3072 if workers > 1 else 2048)
    cmd = ["java", "-XX:+UseParallelGC", f"-XX:ParallelGCThreads={4 if workers > 1 else 2}",
           f"-Xmx{heap_mb}m", f"-Xmn{heap_mb // 2}m"]
    cmd += [f"-DTLA-Library={SPEC_DIR}", "-cp", JAR, "tlc2.TLC",
            "-workers", str(workers), "-metadir", os.path.join(workdir, "meta"),
            "-noGenerateSpecTE", "-config", cfg]
    if simulate:
        cmd += ["-simulate", simulate]
    if depth is not None:
        cmd += ["-depth", str(depth)]
    if seed is not None:
        cmd += ["-seed", str(seed)]
    if dump:
        res.dump = os.path.join(workdir, "dump")
        cmd += ["-dump", res.dump]
    cmd += list(extra)
    cmd.append(module_path)
    full_env = dict(os.environ)
    full_env.pop("JAVA_TOOL_OPTIONS", None)
    if env:
        full_env.update(env)
    start = time.time()
    try:
        proc = subprocess.run(cmd, cwd=SPEC_DIR, env=full_env, capture_output=True,
                              text=True, timeout=timeout, check=False)
    except subprocess.TimeoutExpired as err:
        raise MachineryError(f"TLC timed out after {timeout}s on {module}") from err
    res.wall = time.time() - start
    res.exit = proc.returncode
    res.out = proc.stdout + proc.stderr
    if proc.returncode != 0 and "Java ran out of memory" in res.out and heap_mb < 24000:
        # small fixed heaps are fast but a large exploration may need more: once more with four times the heap
        shutil.rmtree(os.path.join(workdir, "meta"), ignore_errors=True)
        return run(module, cfg, workers=workers, dump=dump, env=env, timeout=timeout, extra=extra, workdir=workdir,
                   heap=heap_mb * 4, simulate=simulate, keep=keep, depth=depth, seed=seed)
    if res.dump and not os.path.exists(res.dump):
        if os.path.exists(res.dump + ".dump"):
            res.dump = res.dump + ".dump"
    for match in _GEN.finditer(res.out):
        res.generated, res.distinct = int(match.group(1)), int(match.group(2))
    match = _DEPTH.search(res.out)
    if match:
        res.depth = int(match.group(1))
    res.violated = _VIOL.findall(res.out)
    if "postcondition" in res.out.lower() and "violated" in res.out.lower() and res.exit != 0:
        res.violated.append("POSTCONDITION")
    res.ok = res.exit == 0
    if res.exit != 0 and not res.violated:
        lines = res.out.strip().splitlines()
        errs = [k for k, ln in enumerate(lines) if ln.startswith("Error:")]
        head = "\n".join(lines[errs[0]:errs[0] + 25]) + "\n...\n" if errs else ""
        tail = head + "\n".join(lines[-8:])
        if own and not keep:
            shutil.rmtree(workdir, ignore_errors=True)
        raise MachineryError(f"TLC failed on {module} (exit {res.exit}):\n{tail}")
    return res


def cleanup(res):
    if res is not None and res.workdir:
        shutil.rmtree(res.workdir, ignore_errors=True)


def counterexample(res):
    """Extract the printed error trace of a TLC run as text."""
    lines = res.out.splitlines()
    out = []
    on = False
    for line in lines:
        if line.startswith("Error:"):
            on = True
        if on:
            out.append(line)
        if re.match(r"^\d+ states generated", line):
            break
    return "\n".join(out)


def printed(res, tag):
    """Values printed by PrintT(<<tag, ...>>) during the run."""
    from . import tlaval
    vals = []
    text = res.out
    # long values are pretty-printed over several lines ("<< \"TAG\",\n ...")
    needle = re.compile(r'<<\s*"' + re.escape(tag) + '"')
    pos = 0
    while True:
        match = needle.search(text, pos)
        if not match:
            break
        parser = tlaval._Parser(text, match.start())
        try:
            vals.append(parser.value())
            pos = parser.pos
        except tlaval.TlaParseError:
            pos = match.end()
    return vals
