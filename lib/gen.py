"""Input spaces: tree shapes, leaf assignments, cost vectors, and the literal
MC modules handed to TLC (TLC enumerates and evaluates them; Python only lists)."""
import itertools
import os
from functools import lru_cache

from .proj import INF, leaves_of, coherent, coherent_dtl
from .tlaval import Rec, to_tla


def join(left, right):
    return ((0,) + tuple(1 if x == 0 else x + 1 for x in left)
            + tuple(1 if x == 0 else x + 1 + len(left) for x in right))


@lru_cache(maxsize=None)
def bin_shapes(n):
    """Every ordered binary tree with n leaves as a pre-order parent array."""
    if n == 1:
        return ((0,),)
    out = []
    for i in range(1, n):
        for left in bin_shapes(i):
            for right in bin_shapes(n - i):
                out.append(join(left, right))
    return tuple(out)


def bin_shapes_upto(n):
    return [s for k in range(1, n + 1) for s in bin_shapes(k)]


def caterpillar(n):
    tree = (0,)
    for _ in range(n - 1):
        tree = join(tree, (0,))
    return tree


def balanced(n):
    if n == 1:
        return (0,)
    return join(balanced((n + 1) // 2), balanced(n // 2))


def random_bin_shape(rng, n):
    """Random ordered binary shape with n leaves (random split sizes)."""
    if n == 1:
        return (0,)
    k = rng.randint(1, n - 1)
    return join(random_bin_shape(rng, k), random_bin_shape(rng, n - k))


def all_shapes(n):
    """Every rooted ordered tree with n nodes (any arity, unary included)."""
    if n == 1:
        return [(0,)]
    out = []
    for tree in all_shapes(n - 1):
        node = n - 1
        path = []
        while node:
            path.append(node)
            node = tree[node - 1]
        for par in path:
            out.append(tree + (par,))
    return out


def random_shape(rng, n, min_children=1):
    """Random rooted ordered tree with n nodes."""
    tree = (0,)
    for i in range(2, n + 1):
        node = i - 1
        path = []
        while node:
            path.append(node)
            node = tree[node - 1]
        tree = tree + (rng.choice(path),)
    return tree


def cost(spe, dup, hgt, floss, sloss):
    return Rec(spe=spe, dup=dup, hgt=hgt, floss=floss, sloss=sloss)


DEFAULT = cost(0, 1, 1, 1, 1)

# representative vectors inside the coherent region (quick tier)
QUICK_COSTS = [
    DEFAULT,
    cost(1, 1, 1, 1, 1),
    cost(0, 2, INF, 1, 1),
    cost(2, 0, 1, 1, 0),      # boundary of the DTL-coherent region
    cost(0, 0, 2, 1, 0),
    cost(0, 1, 1, 0, 0),      # free full losses
    cost(1, 3, 2, 2, 1),
    cost(2, 2, 0, 1, 1),      # free transfers
]


def cost_grid(pred=coherent_dtl, vals=(0, 1, 2), hgts=(0, 1, 2, INF)):
    out = []
    for spe, dup, floss, sloss in itertools.product(vals, repeat=4):
        for hgt in hgts:
            c = cost(spe, dup, hgt, floss, sloss)
            if pred(c):
                out.append(c)
    return out


def random_cost(rng, pred=coherent, hi=3):
    while True:
        c = cost(rng.randint(0, hi), rng.randint(0, hi),
                 rng.choice([0, 1, 1, 2, 3, INF]), rng.randint(0, hi), rng.randint(0, hi))
        if pred(c):
            return c


def leaf_maps(ot, st):
    """Every assignment of the leaves of ot to leaves of st, as lm tuples."""
    oleaves, sleaves = leaves_of(ot), leaves_of(st)
    for choice in itertools.product(sleaves, repeat=len(oleaves)):
        lm = [0] * len(ot)
        for u, s in zip(oleaves, choice):
            lm[u - 1] = s
        yield tuple(lm)


def random_leaf_map(rng, ot, st):
    sleaves = leaves_of(st)
    lm = [0] * len(ot)
    for u in leaves_of(ot):
        lm[u - 1] = rng.choice(sleaves)
    return tuple(lm)


def dtl_inputs(obj_shapes, sp_shapes, costs):
    for ot in obj_shapes:
        for st in sp_shapes:
            for lm in leaf_maps(ot, st):
                for c in costs:
                    yield Rec(ot=ot, st=st, lm=lm, c=c)


def write_mc(workdir, base, inputs, extra_defs="", name="MC"):
    """Write MC.tla extending `base` with the literal input set; returns its path."""
    sp = sorted({tuple(i["st"]) for i in inputs})
    ob = sorted({tuple(i["ot"]) for i in inputs})
    lines = [f"---- MODULE {name} ----", f"EXTENDS {base}",
             "MCSp == {" + ", ".join(to_tla(s) for s in sp) + "}",
             "MCOb == {" + ", ".join(to_tla(s) for s in ob) + "}",
             "MCInputs == {"]
    lines.append(",\n".join(to_tla(i) for i in inputs))
    lines.append("}")
    if extra_defs:
        lines.append(extra_defs)
    lines.append("====")
    path = os.path.join(workdir, f"{name}.tla")
    with open(path, "w", encoding="utf-8") as handle:
        handle.write("\n".join(lines) + "\n")
    return path


@lru_cache(maxsize=None)
def poly_shapes(n):
    """Every rooted ordered tree with n leaves whose internal nodes all have at
    least two children, as pre-order parent arrays."""
    if n == 1:
        return ((0,),)
    out = []

    def compositions(total, parts_min=2):
        # ordered compositions of total into >= parts_min positive parts
        def rec(rem, acc):
            if rem == 0:
                if len(acc) >= parts_min:
                    yield tuple(acc)
                return
            for first in range(1, rem + 1):
                yield from rec(rem - first, acc + [first])
        yield from rec(total, [])

    for comp in compositions(n):
        for kids in itertools.product(*(poly_shapes(k) for k in comp)):
            tree = [0]
            for kid in kids:
                offset = len(tree)
                tree.extend(1 if p == 0 else p + offset for p in kid)
            out.append(tuple(tree))
    return tuple(out)


def poly_shapes_upto(n):
    return [s for k in range(1, n + 1) for s in poly_shapes(k)]
