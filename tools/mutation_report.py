#!/venv/bin/python
"""Summarise the mutation campaigns under /verif/mutation/*/results.jsonl into
/verif/mutation/REPORT.md.  Every mutant that the repository's tests accept and
no check rejects must be accounted for in mutation/classification.json:
  equivalent     no observable behaviour changes (reason given)
  outside        behaviour changes, but no listed property speaks about it
  blind-spot     a property was broken and the checks missed it; `fixed_by` names
                 the strengthening, after which the mutant is rejected
Rules (regular expressions on "file:func:kind|text") classify families of mutants;
single mutants are classified by key.
"""
import collections
import glob
import json
import os
import re

ROOT = "/verif/mutation"


def main():
    with open(f"{ROOT}/classification.json", encoding="utf-8") as handle:
        cls = json.load(handle)
    rules = [(re.compile(r["match"], re.S), r) for r in cls["rules"]]
    rows = collections.OrderedDict()
    missed, machinery = [], []
    for path in sorted(glob.glob(f"{ROOT}/*/results.jsonl")):
        seen = {}
        for line in open(path, encoding="utf-8"):
            rec = json.loads(line)
            seen[rec["key"]] = rec      # the last record of a mutant wins (re-runs after a strengthening)
        for rec in seen.values():
            row = rows.setdefault(rec["file"], collections.Counter())
            row[rec["status"]] += 1
            row["total"] += 1
            if rec["status"] == "missed":
                missed.append(rec)
            elif rec["status"] == "machinery":
                machinery.append(rec)
    out = ["# Mutation campaigns", "",
           "Produced by `tools/mutate.py` (one token-level change per mutant, scratch copies outside /repo and /verif) and",
           "summarised by `tools/mutation_report.py`.  `tests`: rejected by the repository's 55 tests; `caught`: accepted by",
           "the tests, rejected (exit 1) by the quick tier of a registered check; `missed`: accepted by the tests and by",
           "every check registered for the file - each of those is classified below.", "",
           "| file | mutants | tests | caught | missed | machinery |", "|---|---|---|---|---|---|"]
    tot = collections.Counter()
    for name, row in rows.items():
        out.append(f"| {name} | {row['total']} | {row['tests']} | {row['caught']} | {row['missed']} | {row['machinery']} |")
        tot.update(row)
    out.append(f"| **all** | {tot['total']} | {tot['tests']} | {tot['caught']} | {tot['missed']} | {tot['machinery']} |")
    out += ["", "## Mutants accepted by the tests and by the checks", "",
            "| mutant | change | class | reason |", "|---|---|---|---|"]
    counts = collections.Counter()
    unclassified = 0
    for rec in sorted(missed, key=lambda r: (r["file"], r["line"], r["kind"])):
        ident = f"{rec['file']}:{rec['func']}:{rec['kind']}|{rec['text']}"
        entry = cls["mutants"].get(rec["key"])
        if entry is None:
            for rx, rule in rules:
                if rx.search(ident):
                    entry = rule
                    break
        if entry is None:
            entry = {"class": "UNCLASSIFIED", "reason": ""}
            unclassified += 1
        counts[entry["class"]] += 1
        text = rec["text"].replace("|", "\\|")
        rec["kind"] = " ".join(rec["kind"].split())[:120]
        out.append(f"| {rec['file']}:{rec['line']} `{rec['func']}` | {rec['kind'].replace('|', chr(92) + '|')} in `{text[:90]}` | {entry['class']} | "
                   f"{entry.get('reason', '')}{(' - fixed by: ' + entry['fixed_by']) if entry.get('fixed_by') else ''} |")
    out += ["", "Classes: " + ", ".join(f"{k}: {v}" for k, v in sorted(counts.items())), ""]
    if cls.get("closed"):
        out += ["## Blind spots the campaigns found, and how they were closed", ""]
        for item in cls["closed"]:
            out.append(f"- {item['mutant']}: {item['was']}. {item['closed_by']}.")
        out.append("")
    if machinery:
        out += ["## Runs that ended in a machinery failure", ""]
        for rec in machinery:
            out.append(f"- {rec['file']}:{rec['line']} `{rec['func']}` {rec['kind']} ({rec.get('by')}): {rec.get('tail', '')[-200:]!r}")
    with open(f"{ROOT}/REPORT.md", "w", encoding="utf-8") as handle:
        handle.write("\n".join(out) + "\n")
    print(f"{tot['total']} mutants: {tot['tests']} tests, {tot['caught']} caught, {tot['missed']} missed "
          f"({unclassified} unclassified), {tot['machinery']} machinery")
    return 0


if __name__ == "__main__":
    raise SystemExit(main())
