#!/usr/bin/env python3
"""Regenerate /verif/MANIFEST.json from the table below (run after adding a check)."""
import json
import os

HERE = os.path.dirname(os.path.dirname(os.path.abspath(__file__)))

# property id -> (engine module, technique, level text, level note, design ref)
CHECKS = {
    "C16": (
        "DPEntryOps.tla + DPEntry.tla + DPCombine.tla + DPGen.tla + TraceDPEntry.tla + apalache/DPEntryInd.tla",
        "TLC state-graph exploration of the Entry/cell machine; every contract transition, history (all batchings) and combination replayed on the real classes; recorded histories (random, and the update histories of real solver runs through the guarded tracing hook) validated by a TLA+ trace spec; Apalache discharges the contract as an inductive invariant over all integer values",
        "Model checking of the update/combine state machine (finite, closed under histories of any length over the alphabet) plus bounded-exhaustive spec->code replay and code->spec trace validation; the contract is the property text, so any retained tag or value outside it is reported.",
        "Trusts TLC, the TLA+ value reader and the projection (value(), infos(), info(), len(), iter()); candidate values finite, tags truthy strings; the alphabet is 3 values x 2 tags (+ random 10 values x 5 tags in traces).",
        "5/C16",
    ),
}

CHECKS["C01"] = (
    "Trees.tla + Events.tla + THL.tla + TraceDTL.tla",
    "TLC: explicit enumeration of all reconciliations (L0) = Bellman recurrence (L1) = code-shaped THL state machine (L2) on every input of the bounded domain; each input replayed through reconcile_thl / reconcile_exhaustive / generate_all; larger random runs validated by a TLA+ trace spec",
    "Model checking of the solver as a state machine (fill one object node per action, decode, rank) against a declarative event model, plus bounded-exhaustive spec->code replay (results compared with the TLC-computed minimum and valid set) and code->spec trace validation of larger runs; decides optimality, validity, totality and exact enumeration on the bound, samples beyond.",
    "Trusts TLC and the event model of Events.tla (cross-checked against the package's evaluator by C06 and its exhaustive solver); costs restricted to spe <= dup + 2*floss (outside: known finding F-COHERENCE-DTL, witness replayed); object <= 4-5 leaves, species <= 4-6 leaves exhaustively, 5-7 leaves sampled.",
    "5/C01",
)
CHECKS["C07"] = (
    "Trees.tla + Events.tla + THL.tla (LcaFacts) + TraceDTL.tla",
    "TLC invariant LcaFacts (LCA mapping valid, optimal, unique for floss > 0) over all inputs of the bounded DL cost space; reconcile_lca / reconcile_thl(hgt=inf) replayed on each; larger random trees validated by the trace spec",
    "Model checking of the model fact on the specification, bounded-exhaustive replay of reconcile_lca against the LCA mapping defined on parent chains, trace validation for trees up to 10/8 leaves.",
    "Trusts TLC, Events.tla; transfers forbidden through an infinite cost, spe = 0, dup/floss in 0..5.",
    "5/C07",
)

CHECKS["C18"] = (
    "SubseqOps.tla + Subseq.tla + SubseqGen.tla + TraceSubseq.tla",
    "TLC: the bit scan of subseq_segment_dist as a state machine with its loop invariant, equal to the declarative run count for every (child, parent, edges) of the bound; TLC-generated rows and mask tables replayed through the four functions; recorded calls on wider masks validated by a TLA+ trace spec",
    "Model checking of the scan machine against the declarative definition (every mask pair up to 8/10 bits, both end modes) plus bounded-exhaustive spec->code replay of every entry and trace validation of random wider calls.",
    "Trusts TLC and the declarative SegDist/SubseqOf/MaskOf of SubseqOps.tla (two formulations cross-checked by StartsInv); masks below 2^24; sequences of distinct elements.",
    "5/C18",
)

CHECKS["C17"] = (
    "RmqOps.tla + Rmq.tla + Lca.tla + RmqGen.tla + TraceLca.tla",
    "TLC: sparse-table build and two-block query as a state machine (TableInv, AnswerInv against RangeMin by definition) for every array of the bound; Euler-tour LCA machine (TourInv, TieFree, AnswerInv, DerivedInv against definitions on parent chains) for every rooted ordered tree of the bound; every TLC-generated query replayed through RangeMinQuery / LowestCommonAncestor under three node-naming schemes; random larger structures validated by a TLA+ trace spec",
    "Model checking of both structures against their declarative definitions on the bounded domain, bounded-exhaustive spec->code replay of every query, trace validation up to 40 nodes / elements.",
    "Trusts TLC and the definitions on parent chains in RmqOps.tla/Trees.tla; trees <= 7 (8) nodes, arrays <= 7 (9) over 3 values exhaustively; queries inside the structure.",
    "5/C17",
)

CHECKS["C19"] = (
    "ToposortOps.tla + Toposort.tla + Kahn.tla + ToposortGen.tla + TraceToposort.tla",
    "TLC: the backtracking enumerator as a stack machine (ResultInv: bag of results = orderings by permutation filtering; RestoreInv, IndegInv, FrameInv) for every digraph on <= 3 vertices under every set-iteration order and on 4 vertices under ascending order; Kahn queue machine under every insertion/append order; every graph replayed through toposort_all / toposort in several dict presentations; random 5-7 vertex graphs and precedence graphs validated by a TLA+ trace spec",
    "Model checking of both routines as state machines against the declarative set of orderings, bounded-exhaustive spec->code replay (65536 + 531 graphs x 6 presentations), trace validation of larger graphs.",
    "Trusts TLC and AllOrders (permutation filtering) of ToposortOps.tla; graphs are dicts vertex -> set of successors; <= 4 vertices exhaustively, 5-7 sampled.",
    "5/C19",
)

CHECKS["C20"] = (
    "TriplesOps.tla + Triples.tla + TriplesGen.tla + DisjointSetOps.tla + DisjointSet.tla + DisjointSetGen.tla + TraceTriples.tla",
    "TLC: BreakUp as a nondeterministic state machine (rebuild and uniqueness invariants) for every binary tree of the bound; BUILD/AllTrees against the set of displaying binary trees for every triple set on 4 leaves; union-find (rank + path compression) machine refining the partition on its full state graph, binary() against the two-block coarsenings under every iteration order; TLC-generated trees, triple sets and histories replayed through the routines; random 5-6 leaf inputs validated by a TLA+ trace spec",
    "Model checking of the three mechanisms against declarative definitions (clade sets, Displays, partitions), bounded-exhaustive spec->code replay, trace validation of larger random inputs including the supertree routines.",
    "Trusts TLC and the clade-set definitions of TriplesOps.tla; binary trees <= 5 (6) leaves, triple sets on 4 leaves exhaustively, 5-6 leaves sampled; 5 (6) elements for the disjoint sets.",
    "5/C20",
)

CHECKS["C02"] = (
    "Trees.tla + Events.tla + OrderedOps.tla + Ordered.tla + TraceOrdered.tla",
    "TLC: explicit enumeration of mappings x root orders x labellings (L0) = pairwise Bellman recurrence over <<species, positions>> (L1) on the small bound; the five-category recurrence of _compute_spfs_entry as a state machine filled one object node per action (CellInv against L1) for every root order; every TLC-listed and random larger input run through sreconcile_extended_spfs / sreconcile_base_spfs and the recorded calls judged by a TLA+ trace spec",
    "Model checking of the declarative model against the Bellman and code-shaped layers, and trace validation of the real solvers' results (minimum over mappings, root orders and labellings; empty iff no compatible order) on TLC-listed and seeded random inputs.",
    "Trusts TLC and the event/segment model of Events.tla + OrderedOps.tla (L0 by explicit enumeration on <= 3 object leaves, 2 families; L1 beyond); costs inside spe + 2*sloss <= dup + 2*floss; <= 5 object leaves, 4 species leaves, 4 families.",
    "5/C02",
)
CHECKS["C03"] = (
    "Trees.tla + Events.tla + UnorderedOps.tla + Unordered.tla + TraceUnordered.tla",
    "TLC: explicit enumeration (L0) = pairwise Bellman recurrence over every labelling between required and allowed content (L1); lemma CanonLemma (canonical labellings lose nothing); the LCA/INHERIT recurrence of _compute_uspfs_entry as a state machine (CellInv: LCA entry = optimum with the required content, INHERIT entry = optimum with any larger content); real solver calls on TLC-listed and random larger inputs judged by a TLA+ trace spec",
    "Model checking of the declarative model against the Bellman and code-shaped layers including the canonical-labelling lemma, and trace validation of usreconcile_extended_uspfs / usreconcile_base_uspfs results.",
    "Trusts TLC and Events.tla + UnorderedOps.tla; all-labellings oracle up to 3 optional families per input in traces, canonical oracle beyond (lemma model-checked on the bound); costs inside the coherent region; <= 6 object leaves, 4 species leaves, 4 families.",
    "5/C03",
)
CHECKS["C08"] = (
    "Binarize.tla + TriplesOps.tla + TraceOrdered.tla + TraceUnordered.tla",
    "TLC: binarize as a post-order state machine (graft / arrange_leaves with the ignore set) against the declarative set of binary refinements for every tree shape of the bound (each once, count = prod (2k-3)!!); TLC-generated refinement sets compared with utils.trees.binarize and ReconciliationInput.binarize; extended solvers on inputs with polytomies judged by a TLA+ trace spec against the minimum of the solver specification over all refinement pairs",
    "Model checking of the enumerator against Refinements(t), bounded-exhaustive spec->code replay of every shape (names, colours, leaf features), trace validation of the end-to-end optimum and of the trees the solutions refer to.",
    "Trusts TLC, Binarize.tla and the solver specifications; shapes <= 5 (6) leaves for the enumerator, <= 4+4 leaves and <= 30 refinement pairs end to end.",
    "5/C08",
)

CHECKS["C04"] = (
    "Events.tla + THL.tla + OrderedOps.tla + UnorderedOps.tla + Binarize.tla + TraceDTL/TraceOrdered/TraceUnordered.tla",
    "TLC: validity of every produced solution as an invariant of the three solver models (ResultInv, OptValid) on input sets biased to sloss = 0 and tie-heavy vectors; all seven algorithms x both policies run on TLC-listed and random inputs (polytomies included for the extended solvers) and every returned solution judged by TLA+ trace specs / TLC-computed valid sets (Valid, ValidOrd, ValidUn, total mapping, finite cost)",
    "Model checking of the solver models' validity invariants plus trace validation of every solution returned by the real algorithms against the declarative validity predicates of the specification.",
    "Trusts TLC and the validity predicates of Events.tla / OrderedOps.tla / UnorderedOps.tla, written from the property text; inputs <= 5-6 object leaves, 4 species leaves, 4 families; polytomies <= 4+4 leaves.",
    "5/C04",
)
CHECKS["C05"] = (
    "Events.tla + THL.tla + OrderedOps.tla + UnorderedOps.tla + TraceDTL/TraceOrdered/TraceUnordered.tla",
    "TLC: the optimal set as a first-class value (explicit enumeration L0 = Bellman decode L1 = decoded and re-ranked products of retained tags in the THL state machine); thl, exh, base_spfs, ext_spfs, base_uspfs, superdtl x {ALL, ANY} run on TLC-listed and random inputs and judged against the TLC-computed optimal set (ALL = set, each once; ANY = one member; equal costs; empty iff no solution)",
    "Model checking of the optimal-set computation in the solver models, bounded-exhaustive replay and trace validation of the real algorithms' result sets.",
    "Trusts TLC and the optimal sets of Events.tla / OrderedOps.tla / UnorderedOps.tla (canonical optimal set for the unordered solvers, as the property states); costs inside the coherent region (outside: known finding F-COHERENCE, witness replayed).",
    "5/C05",
)

CHECKS["C06"] = (
    "Events.tla + THL.tla (SpecEval) + Ordered.tla / Unordered.tla (SpecEval) + TraceOrdered/TraceUnordered.tla",
    "TLC enumerates every total species mapping (events per node, cost from loss sites; invariant EvalInv) and every valid ordered / unordered labelled solution (lost runs / charged edges) of the bounded inputs under arbitrary cost vectors; each is rebuilt as a (Super)ReconciliationOutput and node_event / reconciliation_cost / labeling_cost / cost compared; larger solver outputs re-priced under random costs are judged by TLA+ trace specs",
    "Bounded-exhaustive spec->code replay of the evaluator on TLC-enumerated solutions (no solver involved, no coherence restriction) plus trace validation of larger solutions.",
    "Trusts TLC and the declarative event model of Events.tla / OrderedOps.tla / UnorderedOps.tla (written from the property text; cross-checked against the optimisers by C01-C03); object <= 4 (5) leaves, species <= 4 (5-6) leaves, <= 3 families.",
    "5/C06",
)

CHECKS["C09"] = (
    "Meta.tla (INSTANCE OrderedOps, UnorderedOps over Events.tla) + TraceMeta.tla",
    "TLC vets the metamorphic relations on the specification itself (minimum / optimal set of every model under mirrored trees, renamed families, an added outgroup, scaled and raised costs) over a bounded input domain; recorded sessions of thl, ext_spfs, superdtl and the base variants on random larger inputs (reordered children, renamed nodes and families, outgroup, repeated and fresh-process runs with other hash seeds, scaling, raised cost, ANY) are judged by a TLA+ trace spec that relates each run to the base run of its session",
    "Model checking of the relations in the model (so that only relations that are theorems of the specification are applied) and trace validation of recorded runs of the real code, results projected to clades.",
    "Trusts TLC, Meta.tla and the clade projection of checks/meta_common.py; outgroup relation on optimal sets only for floss > 0 (TLC refutes it otherwise); costs coherent before and after a change; up to 10 object leaves / 8 species leaves / 4 families.",
    "5/C09",
)
CHECKS["C10"] = (
    "Meta.tla (AgreeInv) + TraceMeta.tla",
    "TLC checks the agreement relations between the models (extended <= base, unordered <= ordered, DTL <= LCA with equality without transfers, single-family coincidences) on the specification over a bounded domain; the seven real algorithms run on the same random inputs and the recorded minima are judged by a TLA+ trace spec",
    "Model checking of the relations between the solver models plus trace validation of the minima returned by all seven algorithms on common inputs.",
    "Trusts TLC and Meta.tla; costs inside the coherent region; up to 10 object leaves / 8 species leaves / 4 families (ordered solvers up to 6 leaves / 3 families).",
    "5/C10",
)

CHECKS["C12"] = (
    "PipelineOps.tla + Pipeline.tla + TracePipeline.tla",
    "TLC: the reconcile command as a state machine (read, label, reject | solve, dump) over every case of a bounded domain (tree shapes x ancestor naming patterns colliding with O#/S# x algorithm x with/without syntenies) with the README's naming contract, rejection rule and the code-shaped label rule as invariants; every case and random documented-format inputs run through the real command line in-process (plus true subprocesses), each written line parsed back, priced and drawn, judged by a TLA+ trace spec",
    "Model checking of the pipeline machine and its naming contract plus trace validation of real invocations (names, exit status, printed minimum = cost of every written solution, all superset of any, draw accepts every line).",
    "Trusts TLC, PipelineOps.tla and the document projection of lib/docproj.py; draw runs with a stub TeX measurer (no TeX engine here); inputs <= 4-5 object leaves.",
    "5/C12",
)

CHECKS["C11"] = (
    "Serial.tla + TracePipeline.tla",
    "TLC: the name-keyed dictionary form as a state machine (object -> dict -> parsed -> redumped) with the action property RoundTrip for uniquely named documents (names with collisions and case variants; a case-insensitive lookup is refuted); documents of all four model classes (random unique names incl. case variants, colours, float-infinite cost, labelled / unlabelled, solver outputs up to 8 leaves) go through from_dict(json(to_dict())) and the projected documents before / after / after re-serialisation are judged by a TLA+ trace spec",
    "Model checking of the serialisation scheme plus trace validation of real round trips; the specification's part is small (an encode/decode property), the weight is on the validated round trips.",
    "Trusts TLC, Serial.tla and the document projection of lib/docproj.py; only the fields the property lists are compared; nodes uniquely named.",
    "5/C11",
)

CHECKS["C13"] = (
    "Events.tla + Drawing.tla + DrawingMC.tla + THL.tla (SpecGen) + TraceDrawing.tla",
    "TLC: the abstract drawing derived from the event model (one event node per object node, loss markers = loss sites, one arrow per transfer) adds up to the cost of every valid reconciliation of the bounded inputs (DrawCostInv); every TLC-enumerated valid reconciliation and random larger ones are laid out and drawn in both orientations with a stub measurer, layout branches and TikZ statements (located by coordinates) are projected and judged by a TLA+ trace spec against the abstract drawing",
    "Model checking of the drawing/cost correspondence in the specification plus trace validation of real layouts and generated TikZ against the abstract drawing.",
    "Trusts TLC, Drawing.tla, the TikZ statement parser and coordinate matching of checks/render_common.py; stub TeX measurer (sizes 1-100) consumed in call order; object <= 4 (5) leaves exhaustively, up to 10 sampled.",
    "5/C13",
)
CHECKS["C14"] = (
    "Geometry.tla + Packing.tla + TraceGeometry.tla + proofs/PackingLemmas.tla",
    "TLC: the subtree packing of _layout_subtrees as a state machine in integer arithmetic (sizes bottom-up, boxes top-down, both hand-written orientations) for every species shape and trunk-size assignment of the bound: sibling boxes disjoint and inside the parent, trunks disjoint, horizontal = transposed vertical; computed layouts of enumerated and random reconciliations (seeded sizes, perturbed parameters) are projected to integer rectangles and judged by a TLA+ trace spec (contract, anchors referenced exist, mirror pair, repetition); TLAPS proves the node step of the repaired packing (trunk and child boxes inside the grown box) for all integer sizes",
    "Model checking of one stage of the layout (the packing design) against the geometric contract, and trace validation of real layouts against the same contract; TLC does not enumerate layouts as such.",
    "Trusts TLC, Geometry.tla and the projection of checks/render_common.py (dyadic coordinates scaled by 4096); stub measurer; conformance of the code to the packing model is not claimed, only to the contract.",
    "5/C14",
)

CHECKS["C15"] = (
    "TikzOps.tla + Tikz.tla + Drawing.tla (EffColour) + TraceTikz.tla + TraceDrawing.tla",
    "TLC: a model of the document generator (layers, colour interning, definitions before the single picture) whose every document is accepted by the token automaton of TikzOps, and greedy wrapping meeting the wrap contract; generated drawings (random names with underscores / backslashes, nested colours, labels up to 12 families, widths 1-30) are tokenised and run through the automaton by TLC, drawn colours compared with EffColour, escaping / label content / balanced_wrap results judged by TLA+ trace specs",
    "Model checking of the generator model against the document automaton plus trace validation of real generated documents, colours, labels and wraps; the TLA+ part is a small automaton and a few string functions - the right size for what the property says.",
    "Trusts TLC, TikzOps.tla, the tokeniser / statement parser of checks/c15.py and checks/render_common.py; stub measurer; colours as HTML hex; markers on the edge into a coloured subtree unconstrained.",
    "5/C15",
)

NOT_YET = {}


def main():
    props = [json.loads(line) for line in open(os.path.join(HERE, "properties.jsonl"), encoding="utf-8")]
    checks = []
    not_applicable = []
    for prop in props:
        pid = prop["id"]
        if pid in CHECKS:
            engine, technique, text, note, ref = CHECKS[pid]
            checks.append({
                "property_id": pid,
                "quick_cmd": f"./check {pid} --tier quick",
                "thorough_cmd": f"./check {pid} --tier thorough",
                "evidence_file": f"/verif/evidence/{pid}.json",
                "replay_cmd_template": f"./check {pid} --replay {{path}}",
                "engine": engine,
                "level_claimed": {"category": "model_checking", "text": text, "design_ref": f"DESIGN.md section {ref}"},
                "level_note": note,
                "technique": technique,
            })
        else:
            not_applicable.append({
                "property_id": pid,
                "reason": NOT_YET.get(pid, "check under construction: the TLA+ module for this property is not bound to the code yet (see DESIGN.md section 11 for the build order); not claimed until it is"),
            })
    manifest = {
        "version": 1,
        "setup_cmd": "./setup.sh",
        "hooks": {
            "guard": "SUPERREC2_VERIF",
            "enable": "checks import /repo/src directly (editable install, nothing to build); C16 starts solver runs in child processes with SUPERREC2_VERIF=1 and SUPERREC2_VERIF_TRACE=<file>, which makes Entry.update append one JSON line per call (read at import time; with the guard off the module only tests `_VERIF_LOG is not None`)",
            "baseline_off_cmd": "cd /repo && env -u SUPERREC2_VERIF /venv/bin/python -m pytest -ra -q -p no:cacheprovider --timeout=900 --continue-on-collection-errors",
            "source_commits": ["7ddeabc"],
            "add_only": True,
        },
        "engines": [
            {"name": "tlc", "path": "/verif/lib/tlc.py", "serves_properties": sorted(CHECKS),
             "kind_free_text": "TLC 1.8 on the modules of /verif/spec (E1 state-space exploration, E2 dump generation, E3 trace validation)"},
            {"name": "apalache", "path": "/verif/spec/apalache/DPEntryInd.tla", "serves_properties": ["C16"],
             "kind_free_text": "Apalache 0.58: inductive invariant of the Entry contract over all integer candidate values (base case, step, refutation of the defect constant)"},
            {"name": "tlaps", "path": "/verif/spec/proofs/PackingLemmas.tla", "serves_properties": ["C14"],
             "kind_free_text": "TLAPS 1.6 (SMT back end): the node step of the subtree packing holds trunk and child boxes inside the grown box for all integer sizes; the ungrown variant fails (self-test)"},
        ],
        "checks": checks,
        "notes": "One explicit TLA+ specification (/verif/spec), three engines (TLC alone; TLC-generated cases replayed into the code; recorded executions validated by TLC). See DESIGN.md.",
        "not_applicable": not_applicable,
    }
    with open(os.path.join(HERE, "MANIFEST.json"), "w", encoding="utf-8") as handle:
        json.dump(manifest, handle, indent=1)
        handle.write("\n")


if __name__ == "__main__":
    main()
