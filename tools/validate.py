#!/usr/bin/env python3
"""Validate MANIFEST.json and every evidence file against the given schemas (run with python3-vt)."""
import glob
import json
import sys

import jsonschema

ok = True
man = json.load(open("/verif/MANIFEST.json"))
jsonschema.validate(man, json.load(open("/root/.vp/MANIFEST.schema.json")))
schema = json.load(open("/root/.vp/EVIDENCE.schema.json"))
claimed = {c["property_id"] for c in man["checks"]}
na = {c["property_id"] for c in man.get("not_applicable", [])}
props = {json.loads(l)["id"] for l in open("/verif/properties.jsonl")}
if claimed | na != props or claimed & na:
    print("manifest does not partition the properties", sorted(props - claimed - na), sorted(claimed & na))
    ok = False
for pid in sorted(claimed):
    path = f"/verif/evidence/{pid}.json"
    try:
        ev = json.load(open(path))
        jsonschema.validate(ev, schema)
        print(pid, "ok", ev["tier"], ev["wall_s"], "violations", ev.get("violations"))
    except Exception as err:  # pylint: disable=broad-except
        print(pid, "INVALID", str(err)[:300])
        ok = False
sys.exit(0 if ok else 1)
