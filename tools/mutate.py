#!/venv/bin/python
"""Mutation campaign: how many small source changes of superrec2 that the
repository's own tests accept do the registered checks reject?

  tools/mutate.py list  <file> [...]                     print the mutants of the files
  tools/mutate.py run   --out DIR [--jobs N] [--per-function K] [--seed S] <file> [...]

Every mutant is one token-level change of one file (comparison / arithmetic /
boolean operator, small integer constant, True/False, min/max, break/continue,
left/right identifier, swapped pair of positional arguments).  For each mutant a
scratch copy of /repo (outside /repo and /verif, removed at the end) gets the
changed file, the repository's test suite is run on it, and - only when the tests
still pass - the quick tier of the checks registered for that file is run with
VERIF_REPO pointing at the scratch copy.  Nothing is ever written to /repo.

Result lines (JSON) go to DIR/results.jsonl: status is one of
  tests     the repository's tests reject the change
  caught    a check exits 1 (VIOLATION)
  missed    every relevant check exits 0 - equivalent change or blind spot, to be read
  machinery a check exits 2 or times out - to be read
"""
import argparse
import ast
import io
import json
import multiprocessing
import os
import random
import re
import shutil
import subprocess
import sys
import tokenize

REPO = "/repo"
DESELECT = ["--deselect", "tests/render/test_draw.py::test_fixtures",
            "--deselect", "tests/utils/test_tex.py::test_measure"]

# file (relative to src/superrec2) -> checks whose quick tier judges it, likeliest first
CHECKS = {
    "compute/reconciliation.py": ["C01", "C07", "C10", "C09"],
    "compute/exhaustive.py": ["C01"],
    "compute/super_reconciliation.py": ["C02", "C05", "C08"],
    "compute/unordered_super_reconciliation.py": ["C03", "C04", "C05"],
    "compute/util.py": ["C01", "C02", "C03"],
    "model/reconciliation.py": ["C06", "C11", "C12", "C08"],
    "model/tree_mapping.py": ["C11", "C12"],
    "model/synteny.py": ["C11", "C12", "C15"],
    "utils/dynamic_programming.py": ["C16"],
    "utils/trees.py": ["C17", "C20", "C08"],
    "utils/range_min_query.py": ["C17"],
    "utils/subsequences.py": ["C18", "C02"],
    "utils/toposort.py": ["C19"],
    "utils/disjoint_set.py": ["C20"],
    "utils/geometry.py": ["C14", "C13"],
    "utils/text.py": ["C15"],
    "render/layout.py": ["C13", "C14", "C15"],
    "render/tikz.py": ["C13", "C15", "C14"],
    "render/model.py": ["C13", "C14"],
    "cli/reconcile.py": ["C12"],
    "cli/draw.py": ["C12"],
    "cli/util.py": ["C12"],
}

CMP = {ast.Lt: ["<="], ast.LtE: ["<"], ast.Gt: [">="], ast.GtE: [">"], ast.Eq: ["!="], ast.NotEq: ["=="],
       ast.Is: ["is not"], ast.IsNot: ["is"], ast.In: ["not in"], ast.NotIn: ["in"]}
CMP_TXT = {ast.Lt: "<", ast.LtE: "<=", ast.Gt: ">", ast.GtE: ">=", ast.Eq: "==", ast.NotEq: "!=",
           ast.Is: "is", ast.IsNot: "is not", ast.In: "in", ast.NotIn: "not in"}
BIN = {ast.Add: ("+", ["-"]), ast.Sub: ("-", ["+"]), ast.Mult: ("*", ["+"]), ast.FloorDiv: ("//", ["*"]),
       ast.BitOr: ("|", ["&"]), ast.BitAnd: ("&", ["|"]), ast.LShift: ("<<", [">>"]), ast.RShift: (">>", ["<<"])}
SWAP_WORDS = [("left", "right"), ("first", "last"), ("min", "max"), ("top", "bottom"), ("start", "end"),
              ("conserved", "foreign"), ("parent", "child"), ("width", "height"), ("x", "y"), ("w", "h"),
              ("above", "below"), ("ancestor", "descendant"), ("dup", "spe"), ("floss", "sloss"),
              ("full", "segmental")]


class Mutant:
    def __init__(self, path, func, line, start, end, new, kind):
        self.path, self.func, self.line, self.start, self.end, self.new, self.kind = path, func, line, start, end, new, kind

    def key(self):
        return f"{self.path}:{self.line}:{self.start}-{self.end}:{self.new}"


def offsets(source):
    lines = source.splitlines(keepends=True)
    starts = [0]
    for text in lines:
        starts.append(starts[-1] + len(text.encode("utf-8")))
    return starts


def swap_word(name):
    out = []
    for a, b in SWAP_WORDS:
        for x, y in ((a, b), (b, a)):
            parts = name.split("_")
            if x in parts:
                out.append("_".join(y if p == x else p for p in parts))
    return out


def mutants_of(path, rel):
    source = open(path, encoding="utf-8").read()
    data = source.encode("utf-8")
    tree = ast.parse(source)
    line_off = offsets(source)
    out = []

    def pos(node, end=False):
        if end:
            return line_off[node.end_lineno - 1] + node.end_col_offset
        return line_off[node.lineno - 1] + node.col_offset

    def between(a_end, b_start, token):
        """byte range of `token` between two offsets (operators sit between operands)"""
        seg = data[a_end:b_start].decode("utf-8")
        m = re.search(r"(?<![<>=!])" + re.escape(token) + r"(?![=<>])" if token in ("<", ">", "=") else re.escape(token), seg)
        if not m:
            return None
        s = a_end + len(seg[:m.start()].encode("utf-8"))
        return s, s + len(token.encode("utf-8"))

    names_in_scope = {}

    def visit(node, func):
        if isinstance(node, (ast.FunctionDef, ast.AsyncFunctionDef)):
            if node.name.startswith("_verif") or node.name in ("__repr__", "__str__"):
                return
            func = f"{func}.{node.name}" if func else node.name
            names_in_scope[func] = {n.id for n in ast.walk(node) if isinstance(n, ast.Name)} | \
                                   {a.arg for a in ast.walk(node) if isinstance(a, ast.arg)}
        elif isinstance(node, ast.ClassDef):
            func = node.name
        if isinstance(node, ast.Expr) and isinstance(node.value, ast.Constant) and isinstance(node.value.value, str):
            return  # docstring
        if isinstance(node, ast.Call) and getattr(node.func, "id", "") == "tqdm":
            for arg in node.args:   # the iterable is code, the keywords only shape the progress bar
                visit(arg, func)
            return
        if func and not isinstance(node, (ast.FunctionDef, ast.ClassDef)):
            add(node, func)
        for field, value in ast.iter_fields(node):
            if field in ("annotation", "returns", "decorator_list", "bases"):
                continue
            if isinstance(value, list):
                for item in value:
                    if isinstance(item, ast.AST):
                        visit(item, func)
            elif isinstance(value, ast.AST):
                visit(value, func)

    def add(node, func):
        if isinstance(node, ast.Compare):
            operands = [node.left] + node.comparators
            for k, op in enumerate(node.ops):
                rng = between(pos(operands[k], True), pos(operands[k + 1]), CMP_TXT[type(op)])
                if rng:
                    for new in CMP.get(type(op), []):
                        out.append(Mutant(rel, func, node.lineno, rng[0], rng[1], new, f"{CMP_TXT[type(op)]} -> {new}"))
        elif isinstance(node, ast.BinOp) and type(node.op) in BIN:
            if isinstance(node.left, ast.Constant) and isinstance(node.left.value, str):
                return
            token, news = BIN[type(node.op)]
            rng = between(pos(node.left, True), pos(node.right), token)
            if rng:
                for new in news:
                    out.append(Mutant(rel, func, node.lineno, rng[0], rng[1], new, f"{token} -> {new}"))
        elif isinstance(node, ast.AugAssign) and type(node.op) in BIN:
            token, news = BIN[type(node.op)]
            rng = between(pos(node.target, True), pos(node.value), token + "=")
            if rng:
                for new in news:
                    out.append(Mutant(rel, func, node.lineno, rng[0], rng[1], new + "=", f"{token}= -> {new}="))
        elif isinstance(node, ast.BoolOp):
            token = "and" if isinstance(node.op, ast.And) else "or"
            new = "or" if token == "and" else "and"
            for a, b in zip(node.values, node.values[1:]):
                seg = data[pos(a, True):pos(b)].decode("utf-8")
                m = re.search(r"\b" + token + r"\b", seg)
                if m:
                    s = pos(a, True) + m.start()
                    out.append(Mutant(rel, func, node.lineno, s, s + len(token), new, f"{token} -> {new}"))
        elif isinstance(node, ast.UnaryOp) and isinstance(node.op, ast.Not):
            out.append(Mutant(rel, func, node.lineno, pos(node), pos(node.operand), "", "not dropped"))
        elif isinstance(node, ast.Constant) and isinstance(node.value, bool):
            out.append(Mutant(rel, func, node.lineno, pos(node), pos(node, True), str(not node.value), f"{node.value} -> {not node.value}"))
        elif isinstance(node, ast.Constant) and isinstance(node.value, int) and abs(node.value) <= 4:
            for new in {node.value + 1, node.value - 1} - {-1 if node.value == 0 else None}:
                out.append(Mutant(rel, func, node.lineno, pos(node), pos(node, True), str(new), f"{node.value} -> {new}"))
            if node.value == 0:
                out.append(Mutant(rel, func, node.lineno, pos(node), pos(node, True), "(-1)", "0 -> -1"))
        elif isinstance(node, ast.Break):
            out.append(Mutant(rel, func, node.lineno, pos(node), pos(node, True), "continue", "break -> continue"))
        elif isinstance(node, ast.Continue):
            out.append(Mutant(rel, func, node.lineno, pos(node), pos(node, True), "break", "continue -> break"))
        elif isinstance(node, ast.Name) and isinstance(node.ctx, ast.Load):
            for new in swap_word(node.id):
                if new in names_in_scope.get(func, ()) or new in ("min", "max"):
                    out.append(Mutant(rel, func, node.lineno, pos(node), pos(node, True), new, f"{node.id} -> {new}"))
        elif isinstance(node, ast.Attribute) and isinstance(node.ctx, ast.Load):
            for new in swap_word(node.attr):
                s = pos(node, True) - len(node.attr.encode("utf-8"))
                out.append(Mutant(rel, func, node.lineno, s, pos(node, True), new, f".{node.attr} -> .{new}"))
        elif isinstance(node, ast.Call):
            if len(node.args) == 2 and not node.keywords and not any(isinstance(a, ast.Starred) for a in node.args):
                a, b = node.args
                ta, tb = data[pos(a):pos(a, True)].decode(), data[pos(b):pos(b, True)].decode()
                if ta != tb:
                    out.append(Mutant(rel, func, node.lineno, pos(a), pos(b, True),
                                      tb + data[pos(a, True):pos(b)].decode() + ta, f"arguments swapped ({ta}, {tb})"))

    visit(tree, "")
    seen, uniq = set(), []
    for m in out:
        if m.key() not in seen:
            seen.add(m.key())
            uniq.append(m)
    return data, uniq


def apply(data, m):
    return data[:m.start] + m.new.encode("utf-8") + data[m.end:]


def compiles(blob):
    try:
        compile(blob, "<mutant>", "exec")
        return True
    except (SyntaxError, ValueError):
        return False


def work(args):
    slot, jobs_list, outdir, tier = args
    scratch = f"/tmp/mut-{os.getpid()}-{slot}"
    shutil.rmtree(scratch, ignore_errors=True)
    shutil.copytree(REPO, scratch, ignore=shutil.ignore_patterns(".git", "__pycache__", ".pytest_cache", "*.egg-info"))
    env = dict(os.environ, PYTHONPATH=f"{scratch}/src", TQDM_DISABLE="1", PYTHONHASHSEED="0",
               PYTHONDONTWRITEBYTECODE="1", VERIF_MAX_JVMS="5", VERIF_MAX_WORKERS="6")
    env.pop("SUPERREC2_VERIF", None)
    try:
        for rel, blob, m in jobs_list:
            target = f"{scratch}/src/superrec2/{rel}"
            original = open(target, "rb").read()
            open(target, "wb").write(blob)
            rec = {"file": rel, "func": m.func, "line": m.line, "kind": m.kind, "key": m.key(),
                   "text": original.splitlines()[m.line - 1].decode("utf-8").strip()[:160]}
            try:
                try:
                    t = subprocess.run(["/venv/bin/python", "-m", "pytest", "-x", "-q", "-p", "no:cacheprovider",
                                        "--timeout=120", "tests"] + DESELECT, cwd=scratch, env=env,
                                       capture_output=True, text=True, timeout=900)
                    tests_ok = t.returncode == 0
                except subprocess.TimeoutExpired:
                    tests_ok = False
                if not tests_ok:
                    rec["status"] = "tests"
                else:
                    rec["status"] = "missed"
                    rec["checks"] = {}
                    for check in CHECKS[rel]:
                        try:
                            c = subprocess.run(["/verif/check", check, "--tier", tier], env=dict(env, VERIF_REPO=scratch),
                                               capture_output=True, text=True, timeout=900)
                            code, text = c.returncode, c.stdout + c.stderr
                        except subprocess.TimeoutExpired as err:
                            code, text = 124, str(err)
                        rec["checks"][check] = code
                        if code == 1:
                            rec["status"] = "caught"
                            rec["by"] = check
                            vio = [ln for ln in text.splitlines() if ln.startswith("  ") and "VIOLATION" not in ln]
                            rec["first"] = (vio[0].strip() if vio else "")[:240]
                            break
                        if code != 0:
                            rec["status"] = "machinery"
                            rec["by"] = check
                            rec["tail"] = text[-600:]
                            break
            finally:
                open(target, "wb").write(original)
            with open(f"{outdir}/results.jsonl", "a", encoding="utf-8") as handle:
                handle.write(json.dumps(rec) + "\n")
    finally:
        shutil.rmtree(scratch, ignore_errors=True)
    return len(jobs_list)


def main():
    ap = argparse.ArgumentParser()
    ap.add_argument("cmd", choices=["list", "run"])
    ap.add_argument("files", nargs="+")
    ap.add_argument("--out", default="/verif/mutation/run")
    ap.add_argument("--jobs", type=int, default=4)
    ap.add_argument("--per-function", type=int, default=0, help="sample at most K mutants per function (0: all)")
    ap.add_argument("--seed", type=int, default=1)
    ap.add_argument("--tier", default="quick")
    ap.add_argument("--only", default="", help="regular expression on the function name")
    opts = ap.parse_args()
    rng = random.Random(opts.seed)
    todo = []
    for rel in opts.files:
        rel = rel.replace("src/superrec2/", "")
        data, muts = mutants_of(f"{REPO}/src/superrec2/{rel}", rel)
        byfunc = {}
        for m in muts:
            if opts.only and not re.search(opts.only, m.func):
                continue
            blob = apply(data, m)
            if compiles(blob):
                byfunc.setdefault(m.func, []).append((rel, blob, m))
        for func, items in sorted(byfunc.items()):
            if opts.per_function and len(items) > opts.per_function:
                items = rng.sample(items, opts.per_function)
            todo += items
    if opts.cmd == "list":
        for rel, _, m in todo:
            print(f"{rel}:{m.line} {m.func}: {m.kind}")
        print(len(todo), "mutants")
        return 0
    os.makedirs(opts.out, exist_ok=True)
    done = set()
    if os.path.exists(f"{opts.out}/results.jsonl"):
        done = {json.loads(line)["key"] for line in open(f"{opts.out}/results.jsonl", encoding="utf-8")}
    todo = [t for t in todo if t[2].key() not in done]
    rng.shuffle(todo)
    slots = [(k, todo[k::opts.jobs], opts.out, opts.tier) for k in range(opts.jobs)]
    with multiprocessing.Pool(opts.jobs) as pool:
        pool.map(work, slots)
    return 0


if __name__ == "__main__":
    sys.exit(main())
