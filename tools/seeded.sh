#!/bin/sh
# tools/seeded.sh <agent worktree> <PID> <variant a|b> [checks to run, default PID]
# Confirms a seeded change (tests pass with it; demo fails with it, passes without),
# runs the named checks against a scratch worktree carrying it, stores everything
# under /verif/seeded/<PID><variant>/.
set -u
WT=$1; PID=$2; V=$3; shift 3
CHECKS=${*:-$PID}
SCR=/tmp/wt-seed-$$
OUT=/verif/seeded/${OUTID:-$PID$V}
git -C /repo worktree add -q --detach $SCR HEAD || exit 2
trap 'git -C /repo worktree remove --force $SCR' EXIT
mkdir -p $OUT
cp $WT/variant_$V.diff $OUT/patch.diff
cp $WT/demo_$V.py $OUT/demo.py
export TQDM_DISABLE=1
( cd $SCR && PYTHONPATH=$SCR/src /venv/bin/python $OUT/demo.py >/dev/null 2>&1 ); demo_clean=$?
git -C $SCR apply $OUT/patch.diff || { echo "patch does not apply"; exit 2; }
( cd $SCR && PYTHONPATH=$SCR/src /venv/bin/python $OUT/demo.py >$OUT/demo.out 2>&1 ); demo_mut=$?
( cd $SCR && PYTHONPATH=$SCR/src /venv/bin/python -m pytest -q -p no:cacheprovider --timeout=900 tests --deselect tests/render/test_draw.py::test_fixtures --deselect tests/utils/test_tex.py::test_measure 2>&1 | tail -1 ) > $OUT/tests.out
tests=$(cat $OUT/tests.out)
echo "demo clean=$demo_clean mutated=$demo_mut tests: $tests"
results=""
for c in $CHECKS; do
  VERIF_REPO=$SCR /verif/check $c --tier quick > $OUT/check_$c.out 2>&1; rc=$?
  nv=$(grep -c '^VIOLATION' $OUT/check_$c.out)
  echo "check $c: exit=$rc violations=$nv; first: $(grep -A1 '^VIOLATION' $OUT/check_$c.out | sed -n 2p | cut -c1-200)"
  results="$results $c:exit=$rc"
  tail -c 3000 $OUT/check_$c.out > $OUT/check_$c.tail; mv $OUT/check_$c.tail $OUT/check_$c.out
done
cp $WT/NOTES.md $OUT/NOTES.md 2>/dev/null
/venv/bin/python - "$OUT" "$PID" "$V" "$demo_clean" "$demo_mut" "$tests" "$results" <<'PY'
import json, sys, re
out, pid, v, dc, dm, tests, results = sys.argv[1:8]
notes = open(f"{out}/NOTES.md").read() if __import__("os").path.exists(f"{out}/NOTES.md") else ""
meta = {"id": f"{pid}{v}", "breaks_property": pid, "source": "independent sub-agent given only the property text",
        "needs_to_manifest": "see NOTES.md (variant %s)" % v,
        "confirmed": {"existing_tests_with_change": tests, "demo_exit_clean": int(dc), "demo_exit_with_change": int(dm)},
        "ran": ["PYTHONPATH=<scratch>/src /venv/bin/python demo.py (clean, then with patch.diff applied)",
                "pytest tests (55 baseline tests) with patch.diff applied",
                "VERIF_REPO=<scratch> /verif/check <ID> --tier quick for: " + results.strip()],
        "check_results": dict(r.split(":exit=") for r in results.split())}
json.dump(meta, open(f"{out}/meta.json", "w"), indent=1)
PY
echo "$results" > $OUT/results.txt
echo "demo_clean=$demo_clean demo_mutated=$demo_mut" >> $OUT/results.txt
# evidence files were rewritten by the mutated run: regenerate on the clean tree is the caller's job
