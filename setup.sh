#!/bin/sh
# Offline setup: check that every specification module parses and the drivers compile.
set -e
cd "$(dirname "$0")"
status=0
for f in spec/*.tla; do
  out=$(cd spec && java -cp /opt/veriftools/tla/tla2tools.jar:/opt/veriftools/tla/CommunityModules-deps.jar tla2sany.SANY "$(basename "$f")" 2>&1) || true
  if echo "$out" | grep -q -E "^\*\*\* Errors|Fatal errors|Could not find module"; then
    echo "SANY failed on $f"; echo "$out" | tail -20; status=1
  fi
done
/venv/bin/python -m compileall -q lib checks tools check >/dev/null || status=1
mkdir -p evidence replays
exit $status
