"""C07 - LCA reconciliation is the unique optimum of the duplication-loss model.

E1: invariant LcaFacts of THL!SpecGen over the bounded input space with an
    infinite transfer cost, spe = 0 and dup, floss in 0..5: the LCA mapping (by
    definition on parent chains) is valid, has minimum cost, and is the only
    optimum when floss > 0 (L0 = explicit enumeration of all mappings).
E2: reconcile_lca on every enumerated input must equal the LCA mapping, its
    cost() the minimum; reconcile_thl(ALL) with infinite transfer cost must
    return exactly {LCA mapping} when floss > 0.
E3: random larger trees (up to 10 object leaves / 8 species) recorded and
    validated by TraceDTL.tla (clauses LcaMap, LcaOptimal, LcaUnique, Min).
"""
import random

from lib import gen, proj
from lib.proj import INF
from . import dtl_common as dc

CLAUSES = {"NoFailure", "Valid", "LcaMap", "CostRecount"}
TRACE_CLAUSES = {"ClauseNoFailure", "ClauseTotalMapping", "ClauseValid", "ClauseLcaMap",
                 "ClauseLcaOptimal", "ClauseLcaUnique", "ClauseMin", "ClauseCostRecount"}


def dl_costs(pairs):
    return [gen.cost(0, dup, INF, floss, 0) for dup, floss in pairs]


def run(ctx):
    thorough = ctx.tier == "thorough"
    rng = random.Random(ctx.seed * 1013 + 7)
    ctx.rule = ("every ordered binary object shape x species shape x leaf assignment of the bounded domain with "
                "hgt = inf, spe = 0, (dup, floss) from 0..5; random larger trees in E3. Non-trivial = at least two "
                "valid reconciliations; distinct = distinct input records.")
    ctx.assumptions += ["transfers forbidden by an infinite transfer cost, speciation cost 0 (duplication-loss model)"]
    pairs = [(d, f) for d in range(6) for f in range(6)]
    quick_pairs = [(0, 0), (1, 1), (0, 1), (1, 0), (5, 1), (2, 3)]
    if thorough:
        inputs = list(gen.dtl_inputs(gen.bin_shapes_upto(3), gen.bin_shapes_upto(4), dl_costs(pairs)))
        inputs += list(gen.dtl_inputs(gen.bin_shapes(4), gen.bin_shapes_upto(3), dl_costs(pairs[::3])))
        inputs += rng.sample(list(gen.dtl_inputs(gen.bin_shapes(4), gen.bin_shapes(4), dl_costs(quick_pairs))), 4000)
        inputs += rng.sample(list(gen.dtl_inputs(gen.bin_shapes(5), gen.bin_shapes_upto(3), dl_costs(quick_pairs[:3]))), 3000)
    else:
        inputs = list(gen.dtl_inputs(gen.bin_shapes_upto(3), gen.bin_shapes_upto(3), dl_costs(quick_pairs)))
        inputs += list(gen.dtl_inputs(gen.bin_shapes(4), gen.bin_shapes_upto(3), dl_costs(quick_pairs[:3])))
        inputs += rng.sample(list(gen.dtl_inputs(gen.bin_shapes(4), gen.bin_shapes(4), dl_costs(quick_pairs[:3]))), 300)
    inputs = list(dict.fromkeys(inputs))
    expect = dc.tlc_generate(ctx, inputs, "THL SpecGen (LcaFacts over the DL cost space)")
    ctx.stage("E1/E2 generate")
    results = dc.replay_all([(inp, ("lca", "thl_all")) for inp in inputs])
    ctx.stage("E2 replay")
    seen = 0
    for inp, obs in results:
        exp = expect.get(inp)
        if exp is None:
            continue
        seen += 1
        ctx.count(inp, nontrivial=dc.nontrivial(inp, exp))
        if seen % 1200 == 1:
            ctx.sample({"input": proj.inp_to_json(inp), "lca_mapping": list(exp["lca"]), "min": exp["min"],
                        "n_opt": len(exp["opt"]), "reconcile_lca": obs["lca"]["sols"]})
        reported = set()
        for algo, clause, text in dc.judge(inp, obs, exp, CLAUSES):
            if (algo, clause) not in reported:
                reported.add((algo, clause))
                ctx.violation(f"[{clause}] {text} on {proj.inp_to_json(inp)}", dc.case_of(inp, algo, obs[algo], exp))
        lca = obs["lca"]
        if not lca["exc"] and lca["costs"] and lca["costs"][0] != exp["min"]:
            ctx.violation(f"[LcaOptimal] reconcile_lca costs {lca['costs'][0]}, minimum {exp['min']} on {proj.inp_to_json(inp)}",
                          dc.case_of(inp, "lca", lca, exp))
        thl = obs["thl_all"]
        if not thl["exc"] and inp["c"]["floss"] > 0 and thl["sols"] != [tuple(exp["lca"])]:
            ctx.violation(f"[LcaUnique] reconcile_thl(ALL, hgt=inf) returns {thl['sols'][:4]}, the LCA mapping is "
                          f"{tuple(exp['lca'])} on {proj.inp_to_json(inp)}", dc.case_of(inp, "thl_all", thl, exp))
        if not thl["exc"] and thl["costs"] and thl["costs"][0] != exp["lcacost"]:
            ctx.violation(f"[LcaOptimal] reconcile_thl(hgt=inf) costs {thl['costs'][0]}, LCA reconciliation "
                          f"{exp['lcacost']} on {proj.inp_to_json(inp)}", dc.case_of(inp, "thl_all", thl, exp))
    ctx.traces += seen
    ctx.stage("E2 judge")

    # E3: larger random trees
    n = 1500 if thorough else 150
    big = []
    for _ in range(n):
        c = gen.cost(0, rng.randint(0, 5), INF, rng.randint(0, 5), 0)
        ot = gen.random_bin_shape(rng, rng.randint(4, 10 if thorough else 8))
        st = gen.random_bin_shape(rng, rng.randint(2, 8 if thorough else 6))
        big.append(proj.inp_record(ot, st, gen.random_leaf_map(rng, ot, st), c))
    results = dc.replay_all([(inp, ("lca", "thl_all")) for inp in big])
    events = []
    for inp, obs in results:
        events.extend(dc.events_of(inp, obs))
        ctx.nontrivial.add(inp)
    ctx.stage("E3 record")
    verdicts, index = dc.validate_events(ctx, events, "TraceDTL")
    ctx.stage("E3 validate")
    ctx.sample({"engine": "E3-trace", "event": events[0]})
    for nn, clauses in verdicts:
        clauses = [c for c in clauses if c in TRACE_CLAUSES]
        if clauses:
            event = index[nn]
            ctx.violation(f"recorded {event['op']} run fails {clauses} on {event['in']}",
                          {"engine": "E3", "algo": event["op"], "input": event["in"], "clauses": clauses,
                           "observed": {"exc": event["exc"], "sols": event["sols"][:10], "costs": event["costs"][:10]}})


def replay(path):
    return dc.replay(path, "C07", CLAUSES | {"AllExact"}, ("lca", "thl_all"))
