"""Shared machinery for the super-reconciliation properties (C02-C06, C08-C10):
input spaces with syntenies, TLC runs of Ordered.tla / Unordered.tla (E1),
execution of the real solvers on abstract inputs, and trace validation of the
recorded calls by TraceOrdered.tla / TraceUnordered.tla (E2: TLC-listed inputs,
E3: random larger ones)."""
import itertools
import multiprocessing
import os
import shutil

from lib import gen, mc, proj, tlc, tlaval
from lib.proj import INF
from lib.tlaval import Rec

FAMS = {"ord": ("Ordered", "TraceOrdered", {"ScaleBeforeTest": "FALSE"}),
        "un": ("Unordered", "TraceUnordered", {"NoLcaLcaCharge": "FALSE"})}


# ------------------------------------------------------------------ inputs
def sinput(ot, st, lm, c, syn, root=()):
    return Rec(ot=tuple(ot), st=tuple(st), lm=tuple(lm), c=Rec(c), syn=tuple(tuple(s) for s in syn),
               root=tuple(root))


def sinput_json(inp):
    return {"ot": list(inp["ot"]), "st": list(inp["st"]), "lm": list(inp["lm"]),
            "c": {k: inp["c"][k] for k in proj.COST_KEYS}, "syn": [list(s) for s in inp["syn"]],
            "root": list(inp["root"])}


def sinput_from_json(w):
    return sinput(w["ot"], w["st"], w["lm"], w["c"], w["syn"], w.get("root", ()))


def small_inputs(fam, obj_shapes, sp_shapes, leaf_syns, costs):
    """Every leaf assignment x every tuple of leaf syntenies from `leaf_syns`."""
    for ot in obj_shapes:
        leaves = proj.leaves_of(ot)
        for st in sp_shapes:
            for lm in gen.leaf_maps(ot, st):
                for combo in itertools.product(leaf_syns, repeat=len(leaves)):
                    syn = [()] * len(ot)
                    for u, s in zip(leaves, combo):
                        syn[u - 1] = s
                    for c in costs:
                        yield sinput(ot, st, lm, c, syn)


def random_syn(rng, fam, ot, nf, p_inconsistent=0.15):
    ref = list(range(1, nf + 1))
    rng.shuffle(ref)
    syn = [()] * len(ot)
    for u in proj.leaves_of(ot):
        pick = [f for f in ref if rng.random() < 0.6] or [rng.choice(ref)]
        if fam == "un":
            pick = sorted(pick)
        elif rng.random() < p_inconsistent:
            rng.shuffle(pick)
        syn[u - 1] = tuple(pick)
    return syn, ref


def random_sinput(rng, fam, max_obj, max_sp, nf, costs=None, min_obj=2, p_root=0.15, pred=proj.coherent):
    ot = gen.random_bin_shape(rng, rng.randint(min_obj, max_obj))
    st = gen.random_bin_shape(rng, rng.randint(1, max_sp))
    lm = gen.random_leaf_map(rng, ot, st)
    c = rng.choice(costs) if costs else gen.random_cost(rng, pred)
    with_root = fam == "ord" and rng.random() < p_root
    # a prescribed root order must be a common supersequence of the leaves (documented domain)
    syn, ref = random_syn(rng, fam, ot, rng.randint(1, nf), p_inconsistent=0.0 if with_root else 0.15)
    root = tuple(ref) if with_root else ()
    return sinput(ot, st, lm, c, syn, root)


def nested_ordered_inputs(rng, n, costs, deep=False):
    """Directed family for the ordered solvers: caterpillar object trees whose
    ancestors best hold a strict sub-sequence of the root order while a child
    below holds more than its own leaves (one leaf holds everything, its
    neighbour a suffix, the leaves below sparse parts of that suffix)."""
    out = []
    while len(out) < n:
        k = rng.choice([3, 4, 4])
        order = list(range(1, k + 1))
        ot = gen.caterpillar(5 if deep and rng.random() < 0.1 else 4)
        st = rng.choice([gen.caterpillar(3), gen.bin_shapes(2)[0], gen.balanced(4) if deep else gen.caterpillar(3)])
        leaves = proj.leaves_of(ot)
        syn = [()] * len(ot)
        suffix = order[rng.randint(1, k - 1):]
        for i, u in enumerate(leaves):
            if i == len(leaves) - 1:
                fams = order                      # the outermost leaf holds everything
            elif i == len(leaves) - 2:
                fams = suffix                     # its neighbour lacks the early families
            else:
                fams = [f for f in suffix if rng.random() < 0.5] or [rng.choice(suffix)]
            syn[u - 1] = tuple(fams)
        # the full leaf fixes the root order: one table per input
        out.append(sinput(ot, st, gen.random_leaf_map(rng, ot, st), rng.choice(costs), syn))
    return out


SUPER_COSTS = [
    gen.cost(0, 1, 1, 1, 1),
    gen.cost(1, 2, 1, 1, 0),      # free segmental losses
    gen.cost(0, 1, INF, 1, 1),    # no transfers
    gen.cost(0, 2, 2, 1, 2),      # boundary of the coherent region
    gen.cost(0, 0, 1, 0, 0),      # tie-heavy
    gen.cost(1, 1, 0, 2, 1),      # free transfers
    gen.cost(2, 4, 3, 0, 1),      # free full losses
    gen.cost(0, 1, INF, 2, 1),    # dear full losses, no transfers
    gen.cost(0, 2, 3, 2, 0),      # dear full losses, free segmental losses
    gen.cost(1, 1, 1, 3, 2),      # full loss dearer than transfer
]


# --------------------------------------------------------------------- TLC
def consts_for(fam, base, with_l0, extra=None):
    module, _, defects = FAMS[fam]
    out = dict(defects)
    out.update({"Inputs": "<- MCInputs", "SpShapes": "<- MCSp", "ObShapes": "<- MCOb",
                "Base": "TRUE" if base else "FALSE", "WithL0": "TRUE" if with_l0 else "FALSE"})
    out.update(extra or {})
    return out


def _run(ctx, fam, inputs, spec, consts, invariants, name, expect_violation=False, timeout=3000, dump=False):
    module = FAMS[fam][0]
    wdir = tlc.make_workdir("verif-super-")
    try:
        path = gen.write_mc(wdir, module, inputs)
        cfg = os.path.join(wdir, "mc.cfg")
        tlc.write_cfg(cfg, spec=spec, constants=consts, invariants=invariants)
        res = tlc.run(path, cfg, workdir=wdir, timeout=timeout, dump=dump)
        if expect_violation:
            return res, []
        ctx.add_tlc(name, res)
        if not res.ok:
            ctx.violation(f"specification ({name}): {','.join(res.violated)} violated",
                          {"engine": "E1", "module": module, "trace": tlc.counterexample(res)[:6000]})
        states = list(tlaval.read_dump(res.dump)) if dump else []
        return res, states
    finally:
        shutil.rmtree(wdir, ignore_errors=True)


def tlc_gen(ctx, fam, inputs, base, with_l0, name, invariants=None, dump=False):
    """SpecGen over the literal inputs: L1 expectations, L1 = L0 (where WithL0),
    optimal solutions valid (and, unordered, the canonical-labelling lemma)."""
    if invariants is None:
        invariants = ["L1EqualsL0", "OptValid"] + (["CanonLemma"] if fam == "un" else [])
    return _run(ctx, fam, inputs, "SpecGen", consts_for(fam, base, with_l0), invariants, name, dump=dump)


def tlc_steps(ctx, fam, inputs, base, name, extra=None, expect_violation=False):
    """SpecSteps: the code-shaped table filled one object node per action, CellInv."""
    return _run(ctx, fam, inputs, "SpecSteps", consts_for(fam, base, False, extra), ["CellInv"], name,
                expect_violation=expect_violation)


# ----------------------------------------------------------- running the code
def project_solution(A, out):
    """Abstract image of one returned solution, through its own trees."""
    inp = out.input
    ot, onodes = proj.tree_to_parents(inp.object_tree)
    st, snodes = proj.tree_to_parents(inp.species_lca.tree)
    sindex = {node: i for i, node in enumerate(snodes, start=1)}
    m = [sindex.get(out.object_species.get(node), 0) for node in onodes]
    lab = []
    for node in onodes:
        fams = out.syntenies.get(node)
        if fams is None:
            lab.append([-1])
        else:
            ids = [proj.fam_id(f) for f in fams]
            lab.append(ids if out.ordered else sorted(ids))
    lm = [sindex.get(inp.leaf_object_species.get(node), 0) if not node.children else 0 for node in onodes]
    syn = []
    for node in onodes:
        fams = inp.leaf_syntenies.get(node) if not node.children else None
        ids = [proj.fam_id(f) for f in fams] if fams is not None else []
        syn.append(ids if out.ordered else sorted(ids))
    return {"ot": list(ot), "st": list(st), "lm": lm, "syn": syn, "m": m, "lab": lab,
            "onames": [n.name for n in onodes], "snames": [n.name for n in snodes]}


ALGOS = {
    "ord": {"ext": "sreconcile_extended_spfs", "base": "sreconcile_base_spfs"},
    "un": {"ext": "usreconcile_extended_uspfs", "base": "usreconcile_base_uspfs"},
}


def solver(A, fam, algo):
    if fam == "ord":
        from superrec2.compute import super_reconciliation as mod
    else:
        from superrec2.compute import unordered_super_reconciliation as mod
    return getattr(mod, ALGOS[fam][algo])


def run_solver(A, fam, algo, policy, inp):
    """One call of a real solver on an abstract input -> event dict."""
    import json
    import zlib
    # ancestral nodes are unnamed for every other input (labels are no part of the problem)
    naming = "unnamed" if zlib.crc32(json.dumps(sinput_json(inp), sort_keys=True).encode()) % 2 else "unique"
    built = proj.build_input(A, inp, syn=inp["syn"], unordered=(fam == "un"),
                             root_syn=inp["root"] if inp["root"] else None, naming=naming)
    pol = A.dp.RetentionPolicy[policy]
    event = {"op": "solve", "fam": fam, "algo": algo, "policy": policy, "in": sinput_json(inp),
             "exc": "", "sols": [], "costs": [], "rcosts": [], "lcosts": []}
    res = mc.safe(lambda: _quiet(lambda: list(solver(A, fam, algo)(built.input, pol))))
    if isinstance(res, mc.Raised):
        event["exc"] = res.text
        return event
    rows = []
    for out in res:
        row = mc.safe(lambda out=out: (project_solution(A, out),
                                       proj.cost_from_impl(A, out.cost()),
                                       proj.cost_from_impl(A, out.reconciliation_cost()),
                                       proj.cost_from_impl(A, out.labeling_cost())))
        if isinstance(row, mc.Raised):
            event["exc"] = "evaluating a returned solution: " + row.text
            return event
        rows.append(row)
    rows.sort(key=lambda r: (r[0]["m"], r[0]["lab"]))
    for sol, cost, rcost, lcost in rows:
        if sol["ot"] != list(inp["ot"]) or sol["st"] != list(inp["st"]):
            event["exc"] = f"a solution refers to other trees than the (binary) input: {sol['ot']} / {sol['st']}"
            return event
        event["sols"].append({"m": sol["m"], "lab": sol["lab"]})
        event["costs"].append(cost)
        event["rcosts"].append(rcost)
        event["lcosts"].append(lcost)
    return event


def _quiet(fn):
    """Run fn with the solver's warnings on stderr discarded."""
    import contextlib
    import io
    with contextlib.redirect_stderr(io.StringIO()):
        return fn()


CALLS = (("ext", "ALL"), ("ext", "ANY"), ("base", "ALL"), ("base", "ANY"))


def _worker(chunk):
    A = proj.api()
    out = []
    for fam, inp, calls in chunk:
        out.append((fam, inp, [run_solver(A, fam, algo, policy, inp) for algo, policy in calls]))
    return out


def run_all(cases, jobs=16):
    """cases: list of (fam, input, calls).  Returns [(fam, input, [events])]."""
    if not cases:
        return []
    size = max(1, len(cases) // (jobs * 8))
    chunks = [cases[i:i + size] for i in range(0, len(cases), size)]
    with multiprocessing.get_context("fork").Pool(jobs) as pool:
        out = []
        for part in pool.imap(_worker, chunks):
            out.extend(part)
    return out


# ------------------------------------------------------------------ judging
def describe(event, clauses):
    if event.get("op") == "eval":
        return (f"evaluator on solution {event.get('sol')} of {event['in']} fails {clauses}: events {event.get('events')} "
                f"cost {event.get('cost')} = {event.get('rcost')} + {event.get('lcost')}")
    return (f"{ALGOS[event['fam']][event['algo']]}({event['policy']}) fails {clauses} on {event.get('pin', event['in'])}: "
            f"exc={event['exc']!r} returned {len(event['sols'])} solution(s) costs {event['costs'][:5]} "
            f"first {event['sols'][:1]} {event.get('notes', '')}")


def validate(ctx, results, relevant, jobs=16):
    """Trace validation of recorded solver calls; verdict clauses in `relevant`
    become violations.  One session per input (so the oracle is computed once)."""
    for fam in ("ord", "un"):
        sessions = [[dict(e) for e in events] for f, _, events in results if f == fam]
        if not sessions:
            continue
        trace_mod, defects = FAMS[fam][1], FAMS[fam][2]

        def desc(event, clauses):
            return describe(event, clauses)

        n_before = len(ctx.violations)
        mc.validate_sessions(ctx, trace_mod, sessions, constants=defects, relevant=relevant, describe=desc,
                             jobs=jobs, count_traces=sum(len(s) for s in sessions))
        _ = n_before


def replay_case(prop, case, relevant):
    """Re-run one recorded solver call on /repo's working tree and judge it."""
    from lib.harness import Context
    A = proj.api()
    event = case.get("event", case)
    if "in" not in event or "fam" not in event:
        print("replay file carries no solver call")
        return 2
    inp = sinput_from_json(event["in"])
    ctx = Context(prop, "quick", 0)
    ctx.known = []
    new = run_solver(A, event["fam"], event["algo"], event["policy"], inp)
    print("input   :", new["in"])
    print("observed:", {k: new[k] for k in ("exc", "sols", "costs")})
    validate(ctx, [(event["fam"], inp, [new])], relevant, jobs=1)
    return 1 if ctx.violations else 0


# ------------------------------------------------------ inputs with polytomies
def canonical_tree(clades):
    """Parent array of the tree with clade set `clades` (frozensets of leaf ids,
    root and singletons included), children ordered by their least leaf; returns
    (parents, index) with index[clade] = node number."""
    root = max(clades, key=len)
    parents, index = [], {}

    def visit(clade, par):
        parents.append(par)
        me = len(parents)
        index[clade] = me
        kids = [c for c in clades if c < clade and not any(c < d < clade for d in clades)]
        for kid in sorted(kids, key=min):
            visit(kid, me)

    visit(root, 0)
    return tuple(parents), index


def refine_input(pinp, oref, sref):
    """The binary input obtained from the polytomous abstract input `pinp` (leaf
    ids = node numbers of its leaves) with the refinements oref / sref (clade
    sets over those leaf ids)."""
    oa, oidx = canonical_tree(oref)
    sa, sidx = canonical_tree(sref)
    lm = [0] * len(oa)
    syn = [()] * len(oa)
    for u in proj.leaves_of(pinp["ot"]):
        new = oidx[frozenset([u])]
        lm[new - 1] = sidx[frozenset([pinp["lm"][u - 1]])]
        syn[new - 1] = tuple(pinp["syn"][u - 1])
    return sinput(oa, sa, lm, pinp["c"], syn, pinp["root"])


def project_poly_solution(A, out, built):
    """Image of a solution of a polytomous input on canonical refined trees.
    Leaves are recognised by name (o<i> / s<i> of the original input)."""
    inp = out.input
    oleaf = {built.onodes[u - 1].name: u for u in proj.leaves_of(built.ot)}
    sleaf = {built.snodes[u - 1].name: u for u in proj.leaves_of(built.st)}

    def clade_map(tree, leaf_ids):
        table = {}
        for node in tree.traverse():
            table[node] = frozenset(leaf_ids[leaf.name] for leaf in node.get_leaves())
        return table

    ocl = clade_map(inp.object_tree, oleaf)
    scl = clade_map(inp.species_lca.tree, sleaf)
    oa, oidx = canonical_tree(frozenset(ocl.values()))
    sa, sidx = canonical_tree(frozenset(scl.values()))
    m = [0] * len(oa)
    lab = [[-1]] * len(oa)
    lm = [0] * len(oa)
    syn = [[]] * len(oa)
    binary = True
    names = {}
    for node, clade in ocl.items():
        i = oidx[clade]
        sp = out.object_species.get(node)
        m[i - 1] = sidx[scl[sp]] if sp in scl else 0
        fams = out.syntenies.get(node)
        if fams is not None:
            ids = [proj.fam_id(f) for f in fams]
            lab[i - 1] = ids if out.ordered else sorted(ids)
        if not node.children:
            lm[i - 1] = sidx[scl[inp.leaf_object_species[node]]]
            ids = [proj.fam_id(f) for f in inp.leaf_syntenies[node]]
            syn[i - 1] = ids if out.ordered else sorted(ids)
        elif len(node.children) != 2:
            binary = False
        names[("o", tuple(sorted(clade)))] = (node.name, getattr(node, "color", None))
    for node, clade in scl.items():
        if node.children and len(node.children) != 2:
            binary = False
        names[("s", tuple(sorted(clade)))] = (node.name, getattr(node, "color", None))
    return {"ot": list(oa), "st": list(sa), "lm": lm, "syn": syn, "m": m, "lab": lab}, binary, names


def run_solver_poly(A, fam, policy, pinp, refs, colours=True):
    """The extended solver on an input with polytomies -> one `poly` event."""
    built = proj.build_input(A, pinp, syn=pinp["syn"], unordered=(fam == "un"),
                             root_syn=pinp["root"] if pinp["root"] else None)
    orig_names = {}
    for kind, nodes, parents in (("o", built.onodes, built.ot), ("s", built.snodes, built.st)):
        cl = proj.clades(parents)
        for i, node in enumerate(nodes, start=1):
            if node.children and colours and i % 2 == 1:
                node.add_feature("color", f"k{i}")
            orig_names[(kind, tuple(sorted(cl[i - 1])))] = (node.name, getattr(node, "color", None))
    pol = A.dp.RetentionPolicy[policy]
    event = {"op": "poly", "fam": fam, "algo": "ext", "policy": policy, "pin": sinput_json(pinp),
             "in": sinput_json(refs[0]), "refs": [sinput_json(r) for r in refs],
             "exc": "", "sols": [], "costs": [], "notes": []}
    res = mc.safe(lambda: _quiet(lambda: list(solver(A, fam, "ext")(built.input, pol))))
    if isinstance(res, mc.Raised):
        event["exc"] = res.text
        return event
    rows = []
    for out in res:
        row = mc.safe(lambda out=out: (project_poly_solution(A, out, built), proj.cost_from_impl(A, out.cost())))
        if isinstance(row, mc.Raised):
            event["exc"] = "projecting a returned solution: " + row.text
            return event
        rows.append(row)
    rows.sort(key=lambda r: (r[0][0]["ot"], r[0][0]["st"], r[0][0]["m"], r[0][0]["lab"]))
    for (sol, binary, names), cost in rows:
        event["sols"].append(sol)
        event["costs"].append(cost)
        if not binary:
            event["notes"].append("a returned solution refers to a tree that is not binary")
        for key, info in orig_names.items():
            if key not in names:
                event["notes"].append(f"original clade {key} is missing from a returned solution")
            elif names[key] != info:
                event["notes"].append(f"clade {key}: (name, colour) {info} became {names[key]}")
    event["notes"] = sorted(set(event["notes"]))[:5]
    return event


def replay_known(ctx, fams, relevant):
    """Witness inputs of recorded findings (known_findings.json) are replayed;
    the violation they produce is matched by ctx.violation and printed as
    KNOWN-FINDING; a witness that stops failing is noted."""
    A = proj.api()
    for finding in ctx.known:
        w = finding.get("witness", {})
        if w.get("family") not in fams:
            continue
        inp = sinput_from_json(w["input"])
        event = run_solver(A, w["family"], w["algo"], w.get("policy", "ALL"), inp)
        before = len(ctx.known_hits)
        validate(ctx, [(w["family"], inp, [event])], relevant, jobs=1)
        if len(ctx.known_hits) == before and finding["id"] not in [k["id"] for k in ctx.known_hits]:
            print(f"NOTE: property={ctx.prop} listed witness {finding['id']} no longer fails", flush=True)
