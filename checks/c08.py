"""C08 - polytomies are resolved by exploring every binary refinement exactly once.

E1: Binarize.tla - binarize as a state machine (one input node per action in
    post-order; arrange_leaves / graft with the ignore set) against
    Refinements(t) (binary trees keeping every clade) for every tree shape with
    arities >= 2 up to the leaf bound: NodeInv, ResultInv (each refinement once,
    count = prod (2k-3)!!).
E2: the TLC-generated refinement sets are compared with utils.trees.binarize on
    every shape (names and colours on internal nodes, leaf features), and with
    ReconciliationInput.binarize() (leaf assignments, syntenies, costs kept).
    End to end (part 2, see run_end_to_end): the extended solvers on inputs
    with polytomies against the minimum of the solver specification over all
    pairs of refinements.
"""
import random

from lib import gen, mc, proj, tlaval
from lib.tlaval import to_tla


def build_named(A, parents, prefix, colour_every=2):
    """Tree with every node named; a colour on every `colour_every`-th internal node."""
    root, nodes = proj.build_tree(A.Tree, parents, prefix)
    inner = set(parents)
    for i, node in enumerate(nodes, start=1):
        if i in inner:
            node.name = f"{prefix.upper()}{i}"
            if colour_every and i % colour_every == 1:
                node.add_feature("color", f"c{i}")
        else:
            node.add_feature("tag", f"t{i}")
    return root, nodes


def describe(tree, leaf_ids):
    """Projection of a result tree: clade -> (name, colour) and binary flag."""
    out = {}
    binary = True
    for node in tree.traverse():
        clade = frozenset(leaf_ids[leaf.name] for leaf in node.get_leaves())
        out[clade] = (node.name, getattr(node, "color", None), getattr(node, "tag", None))
        if node.children and len(node.children) != 2:
            binary = False
    return out, binary


def check_binarize(ctx, A, parents, refinements, where="E2"):
    """utils.trees.binarize on one shape against the TLC-computed refinements."""
    root, nodes = build_named(A, parents, "o")
    leaf_ids = {nodes[u - 1].name: u for u in proj.leaves_of(parents)}
    orig, _ = describe(root, leaf_ids)
    case = {"engine": where, "op": "binarize", "tree": list(parents)}
    res = mc.safe(lambda: list(A.trees.binarize(root)) if not root.is_leaf() else [A.trees.binarize(root)])
    if isinstance(res, mc.Raised):
        ctx.violation(f"binarize fails on {list(parents)}: {res.text}", case)
        return 0
    after, _ = describe(root, leaf_ids)
    if after != orig or proj.tree_to_parents(root)[0] != tuple(parents):
        ctx.violation(f"binarize modified its argument {list(parents)}", case)
    bad = proj.malformed(res)
    if bad:
        ctx.violation(f"binarize({list(parents)}) does not return proper trees: {bad}", dict(case, observed=bad))
    got = []
    for tree in res:
        desc, binary = describe(tree, leaf_ids)
        got.append(frozenset(desc))
        if not binary:
            ctx.violation(f"binarize({list(parents)}) returns a tree that is not binary: {sorted(map(sorted, desc))}", case)
        for clade, info in orig.items():
            if clade not in desc:
                ctx.violation(f"binarize({list(parents)}) returns a tree without the original clade {sorted(clade)}: "
                              f"{sorted(map(sorted, desc))}", case)
                break
            if desc[clade] != info:
                ctx.violation(f"binarize({list(parents)}): clade {sorted(clade)} had (name, colour, tag) {info}, "
                              f"the refinement has {desc[clade]}", case)
                break
    want = sorted(sorted(map(sorted, r)) for r in refinements)
    have = sorted(sorted(map(sorted, g)) for g in got)
    if have != want:
        rep = len(have) - len({str(h) for h in have})
        ctx.violation(f"binarize({list(parents)}) yields {len(have)} trees ({rep} repeated), "
                      f"{len(want)} binary refinements exist",
                      dict(case, observed=have[:20], expected=want[:20]))
    return len(res)


def check_input_binarize(ctx, A, rng, ot, st, where="E2"):
    """ReconciliationInput.binarize(): products of refinements, leaf data kept."""
    inp = proj.inp_record(ot, st, gen.random_leaf_map(rng, ot, st), gen.DEFAULT)
    syn = tuple(tuple(sorted(rng.sample(range(1, 4), rng.randint(1, 3)))) if u in proj.leaves_of(ot) else ()
                for u in range(1, len(ot) + 1))
    built = proj.build_input(A, inp, syn=syn)
    for node in built.onodes + built.snodes:
        if node.children:
            node.name = ""
    case = {"engine": where, "op": "input.binarize", "ot": list(ot), "st": list(st)}
    outs = mc.safe(lambda: list(built.input.binarize()))
    if isinstance(outs, mc.Raised):
        ctx.violation(f"ReconciliationInput.binarize fails on {case}: {outs.text}", case)
        return 0
    oleaf = {built.onodes[u - 1].name: u for u in proj.leaves_of(ot)}
    sleaf = {built.snodes[u - 1].name: u for u in proj.leaves_of(st)}
    seen = []
    bad = proj.malformed([out.object_tree for out in outs]) or proj.malformed([out.species_lca.tree for out in outs][:1])
    if bad:
        ctx.violation(f"input.binarize() does not yield proper trees on {case}: {bad}", dict(case, observed=bad))
    for out in outs:
        if set(out.leaf_object_species) != set(out.object_tree.get_leaves()):
            ctx.violation(f"input.binarize() on {case}: the leaf assignment is not keyed by the leaves of the refined tree", case)
        od, ob = describe(out.object_tree, oleaf)
        sd, sb = describe(out.species_lca.tree, sleaf)
        seen.append((frozenset(od), frozenset(sd)))
        if not (ob and sb):
            ctx.violation(f"input.binarize() yields a non-binary tree on {case}", case)
        lm = {oleaf[o.name]: sleaf[s.name] for o, s in out.leaf_object_species.items()}
        want_lm = {u: inp["lm"][u - 1] for u in proj.leaves_of(ot)}
        if lm != want_lm:
            ctx.violation(f"input.binarize() changes the leaf assignment on {case}: {lm} != {want_lm}", case)
        ls = {oleaf[o.name]: tuple(proj.fam_id(f) for f in fams) for o, fams in out.leaf_syntenies.items()}
        if ls != {u: syn[u - 1] for u in proj.leaves_of(ot)}:
            ctx.violation(f"input.binarize() changes the leaf syntenies on {case}", case)
        if dict(out.costs) != dict(built.input.costs):
            ctx.violation(f"input.binarize() changes the costs on {case}", case)
    return seen


def shapes_text(shapes):
    return "MCPoly == {" + ", ".join(to_tla(s) for s in shapes) + "}"


def run(ctx):
    A = proj.api()
    thorough = ctx.tier == "thorough"
    rng = random.Random(ctx.seed * 8009 + 8)
    max_leaves = 6 if thorough else 5
    ctx.rule = ("every rooted ordered tree shape whose internal nodes have >= 2 children up to the leaf bound "
                "(enumerator); inputs with polytomies for ReconciliationInput.binarize and the end-to-end optimum. "
                "Non-trivial = shape with at least one node of degree >= 3; distinct = distinct shapes / inputs.")
    ctx.assumptions += ["leaf names are distinct (documented domain); node names and the colour feature are the "
                        "attributes the property lists"]
    shapes = gen.poly_shapes_upto(max_leaves)
    text = shapes_text(shapes)

    # ---- E1 -----------------------------------------------------------------
    mc.explore(ctx, "Binarize", f"Binarize machine, shapes <= {max_leaves} leaves",
               constants={"PolyShapes": "<- MCPoly", "IgnoreRightBug": "FALSE"},
               invariants=["NodeInv", "ResultInv"], mc_text=text)
    mc.refuted(ctx, "Binarize", "IgnoreRightBug=TRUE",
               constants={"PolyShapes": "<- MCPoly", "IgnoreRightBug": "TRUE"}, invariants=["ResultInv"],
               mc_text=shapes_text(gen.poly_shapes_upto(4)))
    ctx.stage("E1")

    # ---- E2: the enumerator ----------------------------------------------------
    _, states = mc.explore(ctx, "Binarize", "Binarize refinements (generation)", spec="SpecGen",
                           constants={"PolyShapes": "<- MCPoly", "IgnoreRightBug": "FALSE"}, dump=True, mc_text=text)
    refs = {}
    for state in states:
        if state["k"] == -2:
            refs[tuple(state["tree"])] = state["done"][0]
    if len(refs) != len(shapes):
        raise mc.MachineryError(f"{len(refs)} refinement sets for {len(shapes)} shapes")
    n = 0
    for shape in shapes:
        n += 1
        if any(len(proj.children_of(shape, u)) >= 3 for u in range(1, len(shape) + 1)):
            ctx.nontrivial.add(shape)
        produced = check_binarize(ctx, A, shape, refs[shape])
        if n % 60 == 7:
            ctx.sample({"tree": list(shape), "refinements": len(refs[shape]), "binarize_returned": produced})
    # stale state between calls: the same shapes again in another order, in one process
    for shape in rng.sample(shapes, min(len(shapes), 80)):
        check_binarize(ctx, A, shape, refs[shape], where="E2-repeat")
        n += 1
    ctx.evaluations += n
    ctx.traces += n
    ctx.stage("E2 enumerator")

    # ---- E2: ReconciliationInput.binarize --------------------------------------
    small = [s for s in gen.poly_shapes_upto(4)]
    m = 0
    for _ in range(120 if thorough else 40):
        ot, st = rng.choice(small), rng.choice(small)
        seen = check_input_binarize(ctx, A, rng, ot, st)
        m += 1
        if not seen:
            continue
        want = sorted((sorted(map(sorted, a)), sorted(map(sorted, b))) for a in refs[ot] for b in refs[st])
        have = sorted((sorted(map(sorted, a)), sorted(map(sorted, b))) for a, b in seen)
        if have != want:
            ctx.violation(f"input.binarize() on object {list(ot)} / species {list(st)} yields {len(have)} inputs, "
                          f"{len(want)} pairs of refinements exist",
                          {"engine": "E2", "op": "input.binarize", "ot": list(ot), "st": list(st)})
        ctx.nontrivial.add(("input", ot, st))
    ctx.evaluations += m
    ctx.traces += m
    ctx.stage("E2 input.binarize")
    run_end_to_end(ctx, A, rng, refs)


def run_end_to_end(ctx, A, rng, refs):
    """Filled in together with the ordered / unordered solver specifications."""
    from . import c08_e2e
    c08_e2e.run(ctx, A, rng, refs)


def replay(path):
    import json
    from lib.harness import Context
    A = proj.api()
    with open(path, encoding="utf-8") as handle:
        case = json.load(handle)["case"]
    ctx = Context("C08", "quick", 0)
    ctx.known = []
    if case.get("op") == "binarize":
        shape = tuple(case["tree"])
        _, states = mc.explore(ctx, "Binarize", "replay", spec="SpecGen",
                               constants={"PolyShapes": "<- MCPoly", "IgnoreRightBug": "FALSE"}, dump=True,
                               mc_text=shapes_text([shape]))
        want = [s["done"][0] for s in states if s["k"] == -2][0]
        check_binarize(ctx, A, shape, want)
        return 1 if ctx.violations else 0
    from . import c08_e2e
    return c08_e2e.replay(ctx, A, case)
