"""C09 - results do not depend on presentation and respond sanely to the costs.

E1 (vetting): Meta.tla - on the specification itself TLC checks, for every input
    of a bounded domain and every model (plain DTL, ordered, unordered, base
    variants, LCA), that minimum and optimal set (projected to clades) are
    invariant under mirroring the children of either tree and under renaming
    the families, that an outgroup species keeps the minimum (and the optimal
    set when the loss cost is positive), that scaling the costs by 2 and 3
    scales the minimum and keeps the optimal set, and that raising one unit
    cost inside the coherent region never lowers the minimum.
E3: seeded random inputs (up to 10 object leaves / 8 species leaves / 4
    families; smaller for the ordered solvers) run through thl, ext_spfs,
    superdtl and the base variants with ALL under the base presentation and its
    variants (random child reordering of both trees, random node / family
    names, outgroup, repeated run, two fresh processes with other hash seeds,
    scaling, one raised cost, ANY); one event per run, judged by TraceMeta.tla.
"""
import multiprocessing
import random

from lib import gen, mc, proj
from lib.proj import INF
from . import c10
from . import meta_common as mcm
from . import super_common as sc

CLAUSES = {"ClauseSameMinimum", "ClauseSameOptimalSet", "ClauseScaledMinimum", "ClauseMonotone", "ClauseAnyOne",
           "ClauseAnyMember", "ClauseNoBaseRun", "ClauseBaseSize"}
INVS = ["PresentationInv", "OutgroupInv", "ScaleInv", "MonotoneInv", "RenameInv"]


def _session(job):
    """All variants of one (input, algo): returns (input, algo, events, errors)."""
    inp, algo, seed = job
    rng = random.Random(seed)
    A = proj.api()
    fam = mcm.ALGOS[algo][0]
    events, errors = [], []
    TO, TS = mcm.ident(inp["ot"]), mcm.ident(inp["st"])
    floss = inp["c"]["floss"]
    sort_labels = fam == "un"

    keep = {}

    def one(variant, pinp, to, ts, unperm=None, policy="ALL", naming="unique", reuse=None, **kw):
        res = mcm.run_algo(A, algo, pinp, policy=policy, naming=naming, reuse=reuse)
        if isinstance(res, mc.Raised):
            errors.append((variant, res.text))
            return None
        opt = mcm.project(pinp, to, ts, res[1], unperm, sort_labels)
        events.append(mcm.meta_event(algo, variant, res, opt, floss=floss, **kw))
        return res

    if one("base", inp, TO, TS, reuse=keep) is None:
        return inp, algo, events, errors
    one("again", inp, TO, TS, reuse=keep)      # the very same input object, solved a second time
    one("again", inp, TO, TS)                  # and a freshly built one
    ro, rs = mcm.reorder(rng, inp["ot"]), mcm.reorder(rng, inp["st"])
    one("reorder", mcm.present(inp, ro, rs), ro, rs)
    fams = sorted({f for s in inp["syn"] for f in s} | set(inp["root"]))
    shuffled = fams[:]
    rng.shuffle(shuffled)
    perm = dict(zip(fams, shuffled))
    ro2 = mcm.reorder(rng, inp["ot"])
    one("rename", mcm.present(inp, ro2, TS, fam_perm=perm), ro2, TS, unperm={v: k for k, v in perm.items()},
        naming="unnamed")
    og = mcm.outgroup(rng, inp["st"])
    one("outgroup", mcm.present(inp, TO, og), TO, og)
    k = rng.choice([2, 3])
    one("scale", mcm.present(inp, TO, TS, cost=mcm.scaled(inp["c"], k)), TO, TS, k=k)
    key = rng.choice(proj.COST_KEYS)
    rc = mcm.raised(inp["c"], key)
    one("raise", mcm.present(inp, TO, TS, cost=rc), TO, TS, coh=proj.coherent(rc) and proj.coherent(inp["c"]))
    one("any", inp, TO, TS, policy="ANY")
    return inp, algo, events, errors


def run(ctx):
    thorough = ctx.tier == "thorough"
    rng = random.Random(ctx.seed * 9059 + 9)
    ctx.rule = ("E1: every variant x model on seeded small inputs (object <= 3 leaves, species <= 3 leaves, <= 2 families); "
                "E3: sessions (input, algorithm) x 9 variants on seeded random inputs up to 10 object leaves / 8 species "
                "leaves / 4 families. Non-trivial = input with >= 4 object leaves; distinct = distinct (input, algorithm).")
    ctx.assumptions += ["cost vectors inside the coherent region before and after a change",
                        "the outgroup relation on optimal sets is claimed for a positive loss cost only (vetted by TLC: "
                        "with free losses the new root hosts further zero-cost solutions)"]
    c10.vet(ctx, c10.meta_inputs(rng, 400 if thorough else 110), INVS, "Meta: presentation / cost relations on the specification")
    ctx.stage("E1 vetting")

    jobs = []
    for i in range(900 if thorough else 210):
        algo = ["thl", "ue", "oe", "ub", "ob", "thl", "ue"][i % 7]
        fam = mcm.ALGOS[algo][0]
        if algo == "thl":
            ot = gen.random_bin_shape(rng, rng.randint(4, 10 if thorough else 8))
            st = gen.random_bin_shape(rng, rng.randint(2, 8 if thorough else 6))
            syn = [() for _ in ot]
        elif fam == "un":
            ot = gen.random_bin_shape(rng, rng.randint(4, 8 if thorough else 7))
            st = gen.random_bin_shape(rng, rng.randint(2, 6))
            syn, _ = sc.random_syn(rng, "un", ot, rng.randint(2, 4))
            if i % 3 == 0:
                # staircase: a caterpillar whose leaves carry one or two of four families, so that
                # families are gained at successive levels (nested INHERIT nodes in the decoder)
                ot = (0,)
                for _ in range(rng.randint(4, 6)):
                    ot = gen.join(ot, (0,)) if i % 2 else gen.join((0,), ot)
                syn = [tuple(sorted(rng.sample((1, 2, 3, 4), rng.choice((1, 1, 2))))) if u in proj.leaves_of(ot) else ()
                       for u in range(1, len(ot) + 1)]
        else:
            ot = gen.random_bin_shape(rng, rng.randint(3, 5))
            st = gen.random_bin_shape(rng, rng.randint(2, 4))
            syn, _ = sc.random_syn(rng, "ord", ot, rng.randint(2, 3), p_inconsistent=0.0)
        c = gen.random_cost(rng, proj.coherent) if rng.random() < 0.5 else rng.choice(c10.META_COSTS[:5])
        inp = sc.sinput(ot, st, gen.random_leaf_map(rng, ot, st), c, syn)
        jobs.append((inp, algo, rng.randrange(10 ** 9)))
    with multiprocessing.get_context("fork").Pool(16) as pool:
        results = pool.map(_session, jobs, chunksize=1)
    ctx.stage("runs")
    # two fresh interpreters with other hash seeds
    fresh_jobs = [(algo, sc.sinput_json(inp)) for inp, algo, events, errors in results if events]
    fresh = [mcm.fresh_digests(fresh_jobs, hs) for hs in (1, 424242)]
    ctx.stage("fresh processes")
    sessions = []
    idx = 0
    for inp, algo, events, errors in results:
        for variant, text in errors:
            ctx.violation(f"{algo} fails on the {variant} presentation of {sc.sinput_json(inp)}: {text}",
                          {"engine": "E3", "op": "meta", "algo": algo, "variant": variant, "in": sc.sinput_json(inp)})
        if not events:
            continue
        for rows in fresh:
            row = rows[idx]
            if row is None:
                ctx.violation(f"{algo} fails in a fresh process on {sc.sinput_json(inp)}",
                              {"engine": "E3", "op": "meta", "algo": algo, "variant": "fresh", "in": sc.sinput_json(inp)})
            else:
                events.append({"op": "meta", "algo": algo, "variant": "fresh", "k": 1, "floss": inp["c"]["floss"],
                               "coh": True, "min": row[0], "size": row[1], "digest": row[2], "opt": []})
        idx += 1
        for event in events:
            event["in"] = sc.sinput_json(inp)
        sessions.append(events)
        if len(inp["ot"]) >= 7:
            ctx.nontrivial.add((inp, algo))
    ctx.sample({"engine": "E3-trace", "session": [{k: v for k, v in e.items() if k not in ("opt", "in")} for e in sessions[0]],
                "in": sessions[0][0]["in"]})
    mc.validate_sessions(ctx, "TraceMeta", sessions, relevant=CLAUSES, count_traces=sum(len(s) for s in sessions),
                         describe=lambda e, cl: f"{e['algo']} run on the {e['variant']} presentation violates {cl}: "
                                                f"min {e['min']}, {e['size']} optimal solutions, digest {e['digest']}; "
                                                f"input {e.get('in')}")
    lit = [{"op": "meta", "algo": "thl", "variant": "base", "k": 1, "floss": 1, "coh": True, "min": 3, "size": 1,
            "digest": "aa", "opt": [[[[1], [1], []]]]},
           {"op": "meta", "algo": "thl", "variant": "scale", "k": 2, "floss": 1, "coh": True, "min": 6, "size": 1,
            "digest": "aa", "opt": [[[[1], [1], []]]]}]
    mc.trace_selftest(ctx, "TraceMeta", lit, lambda s: [s[0], dict(s[1], min=5)], what="a badly scaled minimum")
    ctx.stage("trace validation")


def replay(path):
    import json
    from lib.harness import Context
    with open(path, encoding="utf-8") as handle:
        data = json.load(handle)
    case = data["case"].get("event", data["case"])
    if "in" not in case or "algo" not in case:
        return 2
    inp = sc.sinput_from_json(case["in"])
    ctx = Context("C09", "quick", 0)
    ctx.known = []
    bad = 0
    for seed in range(5):
        _, algo, events, errors = _session((inp, case["algo"], seed))
        for variant, text in errors:
            print("fails:", variant, text)
            bad += 1
        print([{k: v for k, v in e.items() if k != "opt"} for e in events])
        bad += len(mc.validate_sessions(ctx, "TraceMeta", [events], relevant=CLAUSES))
    return 1 if bad else 0
