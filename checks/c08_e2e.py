"""End-to-end part of C08: the extended solvers on inputs with polytomies return
the optimum over all pairs of binary refinements, and every returned solution
refers to binary trees that keep every clade, node name and colour and the
original leaf data.  The refinements are the TLC-generated sets of
Binarize.tla; the minimum over them is computed by TLC with the solver
specifications (TraceOrdered / TraceUnordered, clause ClauseMinPoly)."""
import multiprocessing

from lib import gen, proj
from . import super_common as sc

CLAUSES = {"ClauseNoFailure", "ClauseRefinement", "ClauseMinPoly", "ClauseRefinementKeepsNamesAndClades",
           "ClauseEmptyIffNoSolution", "ClauseValid", "ClauseCostRecount"}


def poly_inputs(rng, refs, n, max_pairs=30):
    """Random inputs with at least one polytomy; refinement pairs bounded."""
    shapes = [s for s in gen.poly_shapes_upto(4)]
    polys = [s for s in shapes if any(len(proj.children_of(s, u)) >= 3 for u in range(1, len(s) + 1))]
    out = []
    while len(out) < n:
        if rng.random() < 0.5:
            ot, st = rng.choice(polys), rng.choice(shapes)
        else:
            ot, st = rng.choice([s for s in shapes if len(proj.leaves_of(s)) >= 2]), rng.choice(polys)
        if len(proj.leaves_of(ot)) < 2 or len(refs[ot]) * len(refs[st]) > max_pairs:
            continue
        fam = rng.choice(["ord", "un"])
        lm = gen.random_leaf_map(rng, ot, st)
        with_root = fam == "ord" and rng.random() < 0.3     # prescribed root order (a common supersequence)
        syn, ref = sc.random_syn(rng, fam, ot, rng.randint(1, 3), p_inconsistent=0.0 if with_root else 0.05)
        c = rng.choice(sc.SUPER_COSTS)
        out.append((fam, sc.sinput(ot, st, lm, c, syn, tuple(ref) if with_root else ())))
    return out


def _worker(chunk):
    A = proj.api()
    out = []
    for fam, pinp, reflist, policy in chunk:
        out.append((fam, pinp, [sc.run_solver_poly(A, fam, policy, pinp, reflist)]))
    return out


def run_poly(cases, refs, jobs=16):
    work = []
    for fam, pinp in cases:
        reflist = [sc.refine_input(pinp, o, s) for o in sorted(refs[pinp["ot"]], key=lambda t: sorted(map(sorted, t)))
                   for s in sorted(refs[pinp["st"]], key=lambda t: sorted(map(sorted, t)))]
        for policy in ("ALL", "ANY"):
            work.append((fam, pinp, reflist, policy))
    size = max(1, len(work) // (jobs * 4))
    chunks = [work[i:i + size] for i in range(0, len(work), size)]
    with multiprocessing.get_context("fork").Pool(jobs) as pool:
        out = []
        for part in pool.imap(_worker, chunks):
            out.extend(part)
    return out


def run(ctx, A, rng, refs, clauses=CLAUSES, n=None):
    thorough = ctx.tier == "thorough"
    cases = poly_inputs(rng, refs, n or (400 if thorough else 110))
    results = run_poly(cases, refs)
    for fam, pinp, events in results:
        ctx.nontrivial.add(("poly", fam, pinp))
    ev = results[0][2][0]
    ctx.sample({"engine": "E2-poly", "input": ev["pin"], "refinement_pairs": len(ev["refs"]),
                "returned": len(ev["sols"]), "costs": ev["costs"][:3]})
    sc.validate(ctx, results, clauses)
    ctx.stage("end-to-end polytomies")


def replay(ctx, A, case):
    event = case.get("event", case)
    if event.get("op") != "poly":
        return 2
    from lib import mc, tlaval
    from . import c08
    pinp = sc.sinput_from_json(event["pin"])
    refs = {}
    for shape in {pinp["ot"], pinp["st"]}:
        _, states = mc.explore(ctx, "Binarize", "replay", spec="SpecGen",
                               constants={"PolyShapes": "<- MCPoly", "IgnoreRightBug": "FALSE"}, dump=True,
                               mc_text=c08.shapes_text([shape]))
        refs[shape] = [s["done"][0] for s in states if s["k"] == -2][0]
    results = run_poly([(event["fam"], pinp)], refs, jobs=1)
    for _, _, events in results:
        print("observed:", {k: events[0][k] for k in ("policy", "exc", "costs", "notes")}, "solutions:", len(events[0]["sols"]))
    sc.validate(ctx, results, CLAUSES, jobs=1)
    return 1 if ctx.violations else 0
