"""End-to-end part of C08 (extended solvers on inputs with polytomies); placeholder
until the ordered / unordered solver specifications are bound."""


def run(ctx, A, rng, refs):
    ctx.note("end-to-end optimum over refinements: not built yet")


def replay(ctx, A, case):
    return 2
