"""C15 - generated TikZ is well-formed and labels are faithful.

E1: Tikz.tla - a model of the document generator (statements collected in
    layers, colours interned on first use, definitions emitted before the one
    picture) whose every document is accepted by the automaton of TikzOps
    (AcceptedInv); greedy wrapping meets the wrap contract (GreedyMeetsContract);
    the abstract colour rule EffColour lives in Drawing.tla.
E2/E3: generated drawings of the C13 reconciliations with random names (letters,
    digits, underscores, backslashes), random (also nested) colour annotations,
    syntenies up to 12 families and wrap widths 1-30 are tokenised and run
    through the automaton by TLC (TraceTikz.tla: braces, single picture,
    statements terminated, colours defined before the picture); the colour of
    every drawn event node is compared with EffColour (TraceDrawing.tla);
    escaping on every string <= 4 over {a, _, backslash}; displayed synteny
    labels against the families in order; balanced_wrap on every word-length
    list of the bound against the wrap contract.
"""
import itertools
import random
import re

from lib import gen, mc, proj
from . import dtl_common as dc
from . import render_common as rc
from . import super_common as sc
from . import c13

DOC_CLAUSES = {"ClauseBracesBalanced", "ClauseSinglePicture", "ClauseStatementsTerminated",
               "ClauseColoursDefinedBeforePicture", "ClauseUnknownToken", "ClauseEscape", "ClauseLabelContent",
               "ClauseLabelOmittedOnlyWhenEqualToParent", "ClauseLabelWrap", "ClauseWrapKeepsWords", "ClauseWrapWidth",
               "ClauseWrapNoMoreLinesThanGreedy", "ClauseLeafNameEscaped"}
COLOUR_CLAUSES = {"ClauseColourScope", "ClauseLossColourScope"}
HTML = ["ff0000", "00aa00", "0000ff", "ff8800", "008888"]
NAME_CHARS = "abXY01_\\"

_TOK = re.compile(r"\\\\|\\[{}_]|\\begin\{tikzpicture\}|\\end\{tikzpicture\}|\\definecolor\{(\w+)\}|"
                  r"(reccolor\d+)|\\(?:path|node)\b|[{};]")


def tokenise(text):
    """Token stream of a generated document (see TikzOps.tla)."""
    tokens = []
    depth = 0
    in_pic = False
    for line in text.splitlines():
        if line.lstrip().startswith("%"):
            continue
        for m in _TOK.finditer(line):
            s = m.group(0)
            if s in ("\\\\", "\\{", "\\}", "\\_"):
                continue
            if s == "\\begin{tikzpicture}":
                tokens.append({"t": "begin", "c": ""})
                in_pic = True
            elif s == "\\end{tikzpicture}":
                tokens.append({"t": "end", "c": ""})
                in_pic = False
            elif s.startswith("\\definecolor"):
                tokens.append({"t": "def", "c": m.group(1)})
                tokens.append({"t": "{", "c": ""})
                tokens.append({"t": "}", "c": ""})
            elif m.group(2):
                tokens.append({"t": "use", "c": m.group(2)})
            elif s in ("\\path", "\\node"):
                if in_pic and depth == 0:
                    tokens.append({"t": "stmt", "c": ""})
            elif s == "{":
                depth += 1
                tokens.append({"t": "{", "c": ""})
            elif s == "}":
                depth -= 1
                tokens.append({"t": "}", "c": ""})
            elif s == ";":
                if in_pic and depth == 0:
                    tokens.append({"t": ";", "c": ""})
    return tokens


def codes(s):
    return [ord(ch) for ch in s]


def random_name(rng, used, lo=1, hi=4):
    while True:
        name = "".join(rng.choice(NAME_CHARS) for _ in range(rng.randint(lo, hi)))
        if name not in used and name.strip("_\\") != "" or (name not in used and rng.random() < 0.3):
            used.add(name)
            return name


def drawing_events(A, inp, m, fam, lab, seed, shift=0):
    """One drawn reconciliation with random names, colours and widths -> trace events.
    `shift` moves the wrap width of an otherwise identical drawing (the same
    labels drawn again at another width in the same process)."""
    rng = random.Random(seed)
    ot = inp["ot"]
    used = set()
    onames = [random_name(rng, used) for _ in ot]
    leaf_names = {u: f"S{inp['lm'][u - 1]}_{random_name(rng, used)}" for u in proj.leaves_of(ot)}
    colours = {}
    for u in range(1, len(ot) + 1):
        if rng.random() < 0.3:
            colours[u] = rng.choice(HTML)
    fam_names = {}
    sol = {"m": list(m), "lab": lab or [[] for _ in m]}
    if fam != "dtl":
        fams = sorted({f for s in sol["lab"] for f in s} | {f for s in inp["syn"] for f in s})
        fused = set()
        fam_names = {f: random_name(rng, fused, 1, 5) for f in fams}
        sol["fam_names"] = fam_names
    rec, onodes, snodes = rc.build_rec(A, inp, sol, fam, onames=onames, colours=colours, leaf_names=leaf_names)
    if fam != "dtl":   # leaf syntenies of the input use the same family names
        for node, fams_ in list(rec.input.leaf_syntenies.items()):
            rec.input.leaf_syntenies[node] = [fam_names[proj.fam_id(f)] for f in fams_]
    width = 1 + (rng.randint(1, 30) - 1 + shift) % 30
    orient = rng.choice(["V", "H"])
    params = rc.params_for(A, "VERTICAL" if orient == "V" else "HORIZONTAL", None, event_label_width=width,
                           species_label_width=rng.choice([None, 5, 21]))
    base = {"in": {"ot": list(ot), "st": list(inp["st"]), "lm": list(inp["lm"])}, "m": list(m), "seed": seed, "fam": fam,
            "lab": sol["lab"], "syn": [list(s) for s in inp.get("syn", [])], "names": onames,
            "colours": {str(k): v for k, v in colours.items()}, "width": width, "orient": orient, "shift": shift}
    res = rc.render(A, rec, params, seed)
    if isinstance(res, mc.Raised):
        return [dict(base, op="doc", tokens=[{"t": "?", "c": ""}], exc=res.text)], []
    lay, text, _ = res
    doc_events = [dict(base, op="doc", tokens=tokenise(text), exc="")]
    parsed = rc.parse_tikz(text)
    events, losses, arrows, problems = rc.locate_tikz(A, lay, parsed, onodes, snodes, params)
    drawn = [[n["gene"], n["color"]] for n in parsed["nodes"] if n.get("gene")]
    col = [colours.get(u, "") for u in range(1, len(ot) + 1)]
    # loss markers: follow the kept copy down to the object node below the lost edge
    oidx0 = {n: i for i, n in enumerate(onodes, start=1)}
    where = {}
    for snode in snodes:
        for gene, br in lay[snode].branches.items():
            where[gene] = br
    loss_cols = []
    for gene, br in where.items():
        if rc.KIND[br.kind.name] != "X":
            continue
        below = br.left if br.left is not None else br.right
        while below is not None and below not in oidx0:
            nxt = where.get(below)
            below = None if nxt is None else (nxt.left if nxt.left is not None else nxt.right)
        if below is not None:
            loss_cols.append([oidx0[below], br.color if isinstance(br.color, str) else "<none>"])
    colour_events = [dict(base, op="colours", col=col, drawn=drawn, losses=loss_cols, default="000000",
                          problems=problems[:2])]
    if fam == "dtl":   # extant objects are labelled <species>\\textsubscript{<id>}
        oidx = {n: i for i, n in enumerate(onodes, start=1)}
        for snode in snodes:
            for gene, br in lay[snode].branches.items():
                u = oidx.get(gene)
                if u is not None and u in proj.leaves_of(ot):
                    doc_events.append(dict(base, op="leafname", name=codes(leaf_names[u]), shown=codes(br.name)))
    if fam != "dtl":
        oidx = {n: i for i, n in enumerate(onodes, start=1)}
        for snode in snodes:
            for gene, br in lay[snode].branches.items():
                u = oidx.get(gene)
                if u is None:
                    continue
                leaf = u in proj.leaves_of(ot)
                parent = ot[u - 1]
                same = parent != 0 and sol["lab"][u - 1] == sol["lab"][parent - 1]
                doc_events.append(dict(base, op="label", leaf=leaf, has=True, same_as_parent=bool(same),
                                       fams=[codes(fam_names[f]) for f in sol["lab"][u - 1]], shown=codes(br.name),
                                       width=width))
    return doc_events, colour_events


def _worker(chunk):
    A = rc.api()
    return [drawing_events(A, *job) for job in chunk]


def run(ctx):
    A = rc.api()
    from superrec2.utils.text import balanced_wrap
    thorough = ctx.tier == "thorough"
    rng = random.Random(ctx.seed * 9127 + 15)
    ctx.rule = ("documents: drawings of valid reconciliations of small inputs and random larger ones with random names over "
                "[abXY01_\\\\], random nested colours, labelled solutions with up to 12 families and wrap widths 1-30; "
                "escape: every string <= 4 over {a, _, \\\\}; wrap: every list of <= 5 (6) words of length 1-4 x widths 1-8 "
                "(1-30 sampled). Non-trivial = document with a coloured node or a label; distinct = distinct events.")
    ctx.assumptions += ["colour features are HTML hex strings; names over letters, digits, underscores, backslashes",
                        "markers on the edge into a coloured subtree are not constrained (the property does not say)"]
    # ---- E1 ------------------------------------------------------------------
    consts = {"Palette": '{"c1", "c2", "c3"}', "MaxStatements": "6" if thorough else "5", "DefineOnlyFirst": "FALSE",
              "WordLens": "{1, 2, 4}", "MaxWords": "5" if thorough else "4", "Widths": "{1, 2, 3, 4, 5, 6, 7, 8}"}
    mc.explore(ctx, "Tikz", "Tikz generator model accepted by the document automaton; greedy wrap meets the contract",
               constants=consts, invariants=["AcceptedInv", "GreedyMeetsContract"])
    mc.refuted(ctx, "Tikz", "DefineOnlyFirst=TRUE", constants=dict(consts, DefineOnlyFirst="TRUE", MaxStatements="3"),
               invariants=["AcceptedInv"])
    ctx.stage("E1")

    # ---- documents ----------------------------------------------------------------
    costs = [gen.cost(0, 1, 1, 1, 1)]
    inputs = list(gen.dtl_inputs(gen.bin_shapes_upto(3), gen.bin_shapes_upto(3), costs))
    inputs += rng.sample(list(gen.dtl_inputs(gen.bin_shapes(4), gen.bin_shapes_upto(3), costs)), 300 if thorough else 60)
    inputs += rng.sample(list(gen.dtl_inputs(gen.bin_shapes(5), gen.bin_shapes_upto(3), costs)), 200 if thorough else 40)
    inputs = list(dict.fromkeys(inputs))
    expect = dc.tlc_generate(ctx, inputs, "THL SpecGen (all valid reconciliations)", invariants=())
    jobs = []
    for inp in inputs:
        exp = expect.get(inp)
        if exp is None or len(inp["ot"]) < 3:
            continue
        valid = sorted(tuple(p[0]) for p in exp["ranked"] if p[1] < proj.INF)
        for m in rng.sample(valid, min(len(valid), 6 if thorough else 3)):
            seed = rng.randrange(10 ** 6)
            fam, lab, sinp = "dtl", None, inp
            if seed % 2 == 0:
                fam = rng.choice(["ord", "un"])
                syn, _ = sc.random_syn(rng, fam, inp["ot"], rng.choice([3, 6, 12]), 0.0)
                sinp = sc.sinput(inp["ot"], inp["st"], inp["lm"], inp["c"], [sorted(s) for s in syn])
                lab = c13.labels_for(rng, sinp, m, fam)
            jobs.append((sinp, m, fam, lab, seed))
            if fam != "dtl" and seed % 3 == 0:   # the same labels again, another width, same process
                jobs.append((sinp, m, fam, lab, seed, rng.choice([5, 11, 19])))
    import multiprocessing
    size = max(1, len(jobs) // 96)
    chunks = [jobs[i:i + size] for i in range(0, len(jobs), size)]
    with multiprocessing.get_context("fork").Pool(16) as pool:
        out = [r for part in pool.imap(_worker, chunks) for r in part]
    ctx.stage("drawings")
    doc_sessions, colour_sessions = [], []
    for docs, cols in out:
        if docs[0].get("exc"):
            ctx.violation(f"layout / render fails on mapping {docs[0]['m']} of {docs[0]['in']} with names {docs[0]['names']}: "
                          f"{docs[0]['exc']}", {"engine": "E2", "event": {k: v for k, v in docs[0].items() if k != "tokens"}})
            continue
        doc_sessions.append(docs)
        colour_sessions.append(cols)
        if docs[0]["colours"] or len(docs) > 1:
            ctx.nontrivial.add((tuple(docs[0]["in"]["ot"]), tuple(docs[0]["m"]), docs[0]["seed"]))

    # ---- escape and wrap ---------------------------------------------------------------
    misc = []
    for n in range(0, 5):
        for combo in itertools.product("a_\\", repeat=n):
            s = "".join(combo)
            out_ = mc.safe(A.tex.escape, s)
            misc.append({"op": "escape", "text": codes(s), "out": codes(out_) if isinstance(out_, str) else [0]})
    for _ in range(300 if thorough else 60):
        s = "".join(rng.choice("ab_\\ 1") for _ in range(rng.randint(5, 12)))
        out_ = mc.safe(A.tex.escape, s)
        misc.append({"op": "escape", "text": codes(s), "out": codes(out_) if isinstance(out_, str) else [0]})
    wraps = []
    for k in range(1, (6 if thorough else 5) + 1):
        for lens in itertools.product((1, 2, 3, 4), repeat=k):
            for w in range(1, 9):
                wraps.append((lens, w))
    if not thorough:
        wraps = wraps[ctx.seed % 2::2]
    for _ in range(3000 if thorough else 400):
        k = rng.randint(2, 9)
        wraps.append((tuple(rng.randint(1, 9) for _ in range(k)), rng.randint(1, 30)))
    for lens, w in wraps:
        text = " ".join("w" * n for n in lens)
        res = mc.safe(balanced_wrap, text, w)
        if isinstance(res, mc.Raised):
            ctx.violation(f"balanced_wrap fails on word lengths {lens} width {w}: {res.text}",
                          {"engine": "E2", "op": "wrap", "lens": list(lens), "width": w})
            continue
        lines = [[len(word) for word in line.split(" ") if word] for line in res.split("\n")]
        misc.append({"op": "wrap", "lens": list(lens), "width": w, "lines": lines})
    ctx.stage("escape / wrap runs")
    sample = doc_sessions[len(doc_sessions) // 2]
    ctx.sample({"engine": "trace", "doc_tokens": len(sample[0]["tokens"]), "first_tokens": sample[0]["tokens"][:12],
                "names": sample[0]["names"], "colours": sample[0]["colours"], "labels": len(sample) - 1})
    ctx.sample({"engine": "trace", "event": misc[-1]})
    mc.validate_sessions(ctx, "TraceTikz", doc_sessions + [[e] for e in misc], relevant=DOC_CLAUSES,
                         count_traces=sum(len(s) for s in doc_sessions) + len(misc),
                         describe=lambda e, cl: f"{e['op']} event violates {cl}: "
                                                + str({k: v for k, v in e.items() if k not in ('tokens', 'n')})[:900])
    mc.validate_sessions(ctx, "TraceDrawing", colour_sessions, relevant=COLOUR_CLAUSES,
                         count_traces=len(colour_sessions),
                         describe=lambda e, cl: f"colours of the drawn nodes {e['drawn']} do not follow the annotations "
                                                f"{e['colours']} on object tree {e['in']['ot']} (names {e['names']}): {cl}")
    lit = [{"op": "doc", "tokens": [{"t": "def", "c": "c0"}, {"t": "{", "c": ""}, {"t": "}", "c": ""}, {"t": "begin", "c": ""},
                                     {"t": "stmt", "c": ""}, {"t": "{", "c": ""}, {"t": "use", "c": "c0"}, {"t": "}", "c": ""},
                                     {"t": ";", "c": ""}, {"t": "end", "c": ""}]},
           {"op": "wrap", "lens": [2, 2, 3], "width": 5, "lines": [[2, 2], [3]]},
           {"op": "escape", "text": [97, 95], "out": [97, 92, 95]}]
    mc.trace_selftest(ctx, "TraceTikz", lit,
                      lambda s: [dict(s[0], tokens=s[0]["tokens"][:8] + s[0]["tokens"][9:]),
                                 dict(s[1], lines=[[2], [2], [3]]), dict(s[2], out=[97, 95])],
                      what="an unterminated statement, a wrap with too many lines and an unescaped underscore")
    ctx.stage("trace validation")


def replay(path):
    import json
    from lib.harness import Context
    A = rc.api()
    with open(path, encoding="utf-8") as handle:
        case = json.load(handle)["case"]
    e = case.get("event", case)
    ctx = Context("C15", "quick", 0)
    ctx.known = []
    if e.get("op") == "wrap":
        from superrec2.utils.text import balanced_wrap
        res = balanced_wrap(" ".join("w" * n for n in e["lens"]), e["width"])
        ev = {"op": "wrap", "lens": e["lens"], "width": e["width"],
              "lines": [[len(word) for word in line.split(" ") if word] for line in res.split("\n")]}
        print(ev)
        return 1 if mc.validate_sessions(ctx, "TraceTikz", [[ev]], relevant=DOC_CLAUSES) else 0
    if "in" not in e:
        return 2
    inp = sc.sinput(e["in"]["ot"], e["in"]["st"], e["in"]["lm"], gen.cost(0, 1, 1, 1, 1), e.get("syn") or [[] for _ in e["in"]["ot"]])
    if e.get("shift"):   # second drawing of a pair: the first one comes first, as in the run
        drawing_events(A, inp, e["m"], e.get("fam", "dtl"), e.get("lab") or None, e.get("seed", 0))
    docs, cols = drawing_events(A, inp, e["m"], e.get("fam", "dtl"), e.get("lab") or None, e.get("seed", 0),
                                e.get("shift", 0))
    print("colours:", cols[0]["colours"] if cols else None, "drawn:", cols[0]["drawn"] if cols else None)
    bad = len(mc.validate_sessions(ctx, "TraceTikz", [docs], relevant=DOC_CLAUSES))
    bad += len(mc.validate_sessions(ctx, "TraceDrawing", [cols], relevant=COLOUR_CLAUSES))
    return 1 if bad else 0
