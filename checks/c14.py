"""C14 - layouts are geometrically coherent and orientation-symmetric.

E1: Packing.tla - the subtree packing of _layout_subtrees as a state machine in
    integer arithmetic (sizes bottom-up, absolute positions top-down) for every
    species shape of the bound and trunk sizes / fork thickness from a small
    set, both orientations: sibling boxes disjoint and inside their parent,
    trunks pairwise disjoint, horizontal = transposed vertical.
E2/E3: the reconciliations of C13 (all valid reconciliations of small inputs,
    random larger ones) laid out with seeded node sizes 1-100 and every numeric
    drawing parameter perturbed; the projected layouts (integer-scaled) are
    judged by TraceGeometry.tla: finite, sibling boxes disjoint and inside the
    parent, trunks disjoint, every anchor a drawn branch refers to exists,
    horizontal layout = transposed vertical layout with exchanged node sizes,
    two computations identical.
"""
import multiprocessing
import random

from lib import gen, mc, proj
from . import dtl_common as dc
from . import render_common as rc
from . import super_common as sc
from . import c13

CLAUSES = {"ClauseFinite", "ClauseSiblingBoxesDisjoint", "ClauseBoxInsideParent", "ClauseTrunksDisjoint",
           "ClauseAnchorsExist", "ClauseMirror", "ClauseDeterministic", "ClauseNoFailure"}


def layout_image(A, inp, m, fam, lab, orient, seed, swap, perturb):
    sol = {"m": list(m), "lab": lab or [[] for _ in m]}
    rec, onodes, snodes = rc.build_rec(A, inp, sol, fam)
    params = rc.params_for(A, "VERTICAL" if orient == "V" else "HORIZONTAL", random.Random(seed) if perturb else None)
    lay = rc.layout_only(A, rec, params, seed, swap=swap)
    if isinstance(lay, mc.Raised):
        return lay
    image = rc.project_layout(A, lay, onodes, snodes)
    image["st"] = list(inp["st"])
    image["pad"], image["gap"] = rc.scaled(params.species_branch_padding), rc.scaled(params.gene_branch_spacing)
    for sp in image["species"]:
        for br in sp["branches"]:
            br["fsp"] = m[br["right"] - 1] if br["kind"] == "T" and br["right"] > 0 else 0
            br.pop("color", None)
            br.pop("name", None)
    return image


def session(A, job):
    inp, m, fam, lab, seed = job
    perturb = seed % 2 == 0
    base = {"in": {"ot": list(inp["ot"]), "st": list(inp["st"]), "lm": list(inp["lm"])}, "m": list(m), "seed": seed,
            "fam": fam, "lab": lab or [], "syn": [list(s) for s in inp.get("syn", [])]}
    h = layout_image(A, inp, m, fam, lab, "H", seed, False, perturb)
    v = layout_image(A, inp, m, fam, lab, "V", seed, True, perturb)
    h2 = layout_image(A, inp, m, fam, lab, "H", seed, False, perturb)
    v0 = layout_image(A, inp, m, fam, lab, "V", seed, False, perturb)
    events = []
    for name, img in (("H", h), ("V", v0)):
        if isinstance(img, mc.Raised):
            events.append(dict(base, op="layout", orient=name, finite=True, st=list(inp["st"]), species=[], exc=img.text, tol=0))
        else:
            events.append(dict(base, op="layout", orient=name, exc="", **img))
    if not isinstance(h, mc.Raised) and not isinstance(v, mc.Raised):
        events.append(dict(base, op="mirror", h=h, v=v, tol=max(h["tol"], v["tol"])))
    if not isinstance(h, mc.Raised) and not isinstance(h2, mc.Raised):
        events.append(dict(base, op="again", a=h, b=h2))
    return events


def _worker(chunk):
    A = rc.api()
    return [session(A, job) for job in chunk]


def branch_events(layout_event):
    """Gene-node placements of one computed layout, one event per species, in the
    form TraceBranches.tla judges (a drift report, outside the listed properties)."""
    out = []
    for sp in layout_event["species"]:
        brs = sp["branches"]
        if not brs:
            continue
        pos = {br["gene"]: k for k, br in enumerate(brs, start=1)}
        items = [{"k": br["kind"], "w": br["rect"][2], "h": br["rect"][3],
                  "l": pos.get(br["left"], 0) if br["kind"] in ("D", "T") else 0,
                  "r": pos.get(br["right"], 0) if br["kind"] == "D" else 0} for br in brs]
        out.append({"op": "branches", "o": layout_event["orient"], "pad": layout_event["pad"], "gap": layout_event["gap"],
                    "items": items, "rects": [br["rect"] for br in brs]})
    return out


def tlaps_lemmas(ctx):
    """Unbounded sizes: TLAPS proves the node step of the repaired packing (trunk
    and child boxes inside the grown box) for all integers; the ungrown variant
    must fail (binding self-test).  Independent of the code under test."""
    import os
    import shutil
    import subprocess
    import tempfile
    import time
    from lib import tlc
    src = os.path.join(tlc.SPEC_DIR, "proofs", "PackingLemmas.tla")
    wdir = tempfile.mkdtemp(prefix="verif-tlaps-")
    try:
        text = open(src, encoding="utf-8").read()
        broken = text.replace("box == w + b + a ", "box == w ").replace("trunk == b + tx ", "trunk == tx ")
        if broken == text:
            raise tlc.MachineryError("PackingLemmas.tla: the self-test variant could not be derived")
        out = {}
        for name, body in (("proof", text), ("ungrown", broken)):
            os.makedirs(os.path.join(wdir, name))
            with open(os.path.join(wdir, name, "PackingLemmas.tla"), "w", encoding="utf-8") as handle:
                handle.write(body)
            start = time.time()
            proved, log = False, ""
            # the back-end solvers run under a wall-clock limit: on a loaded machine a
            # first attempt can time out, so the proof gets longer limits and three tries
            for stretch in (("3", "10", "30") if name == "proof" else ("1",)):
                try:
                    proc = subprocess.run(["tlapm", "--stretch", stretch, "PackingLemmas.tla"], cwd=os.path.join(wdir, name),
                                          capture_output=True, text=True, timeout=900, check=False)
                    log = proc.stdout + proc.stderr
                except (subprocess.TimeoutExpired, OSError) as err:
                    log = str(err)
                proved = "obligations proved" in log and "failed" not in log
                if proved:
                    break
            out[name] = {"proved": proved, "wall_s": round(time.time() - start, 1)}
            if name == "ungrown" and proved:
                raise tlc.MachineryError("self-test: tlapm proved the packing lemma without the growth of the box")
        if not out["proof"]["proved"]:
            # independent of the code under test: reported, never a reason to fail the check
            ctx.note("TLAPS: the proof of PackingLemmas.tla did not go through in this run (solver time limits); "
                     "the bounded TLC check of the same step stands")
            ctx.extra["tlaps"] = {"module": "spec/proofs/PackingLemmas.tla", "results": out}
            return
    finally:
        shutil.rmtree(wdir, ignore_errors=True)
    ctx.extra["tlaps"] = {"module": "spec/proofs/PackingLemmas.tla", "theorems": ["GrowBoxHoldsTrunkAndChildren",
                          "SpacingClearsChildTrunks"], "results": out}
    ctx.note("TLAPS: the packing step keeps trunk and child boxes inside the grown box for all integer sizes; "
             "the ungrown variant is refuted")


def branches_model(ctx, sessions, thorough):
    """Beyond the listed properties, never gating: gene-node placement against
    Branches.tla.  TLC checks the lemmas of the orientation-neutral computation
    (and refutes a seeded clamp slip); the placements of the layouts computed in
    this run are compared with it, differences are counted in the evidence."""
    consts = {"Sizes": "{4, 8}", "MaxLen": "4" if thorough else "3", "Pad": "4", "Gap": "6", "ClampBug": "FALSE"}
    mc.explore(ctx, "Branches", "Branches machine: gene nodes inside one species (outside the listed properties)",
               constants=consts, invariants=["StackInv", "SequenceInv", "ParentInv", "ShiftInv", "MirrorInv", "FoldInv"])
    res, _ = mc.explore(ctx, "Branches", "ClampBug", constants=dict(consts, ClampBug="TRUE", MaxLen="3", Gap="2"),
                        invariants=["MirrorInv"], expect_violation=True)
    ctx.note("gene-node placement (outside the listed properties): the horizontal clamp slip is "
             + ("refuted by TLC through MirrorInv" if not res.ok else "NOT refuted"))
    events = [b for evs in sessions for ev in evs if ev["op"] == "layout" and not ev.get("exc")
              for b in branch_events(ev)]
    events = events[:20000 if thorough else 4000]
    if not events:
        return
    from lib import trace
    chunks, index = trace.split_sessions([[e] for e in events], 16)
    verdicts, stats = trace.validate("TraceBranches", chunks, {"ClampBug": "FALSE"})
    for n, clauses in verdicts[:3]:
        ctx.note(f"drift outside the listed properties: gene-node placement {index[n]['items']} ({index[n]['o']}) "
                 f"differs from Branches.tla: {clauses}")
    ctx.extra["gene_branches"] = {"species_layouts_compared": len(events), "differ_from_Branches_tla": len(verdicts),
                                  "tlc_states": stats["states"]}
    ctx.stage("beyond: gene branches")


def run(ctx):
    thorough = ctx.tier == "thorough"
    rng = random.Random(ctx.seed * 9109 + 14)
    ctx.rule = ("every valid reconciliation of every input with object <= 3 leaves / species <= 3 leaves and seeded samples "
                "with 4 (5) leaves, plus random reconciliations up to 10 leaves; node sizes 1-100 from the seeded stub, "
                "numeric drawing parameters perturbed in half of the cases; each reconciliation gives a horizontal layout, "
                "a vertical layout, a mirror pair and a repetition. Non-trivial = at least 3 species nodes; distinct = "
                "distinct (input, mapping, seed).")
    ctx.assumptions += ["coordinates are dyadic (integer sizes from the stub, parameters multiples of 1/2) and are scaled "
                        "by 4096 to integers", "sizes come from the stub measurer in call order"]
    # ---- E1: packing model ----------------------------------------------------
    text = ("MCShapes == BinShapesUpTo(" + ("4" if thorough else "3") + ")\n"
            + "MCTrunks == " + ("{<<0, 32>>, <<96, 64>>}" if thorough else "{<<0, 32>>, <<32, 32>>, <<96, 64>>}"))
    consts = {"Shapes": "<- MCShapes", "TrunkSizes": "<- MCTrunks", "Forks": "{0, 32}", "Spacing": "32", "Level": "16",
              "ShiftBug": "FALSE", "GrowBox": "TRUE"}
    invs = ["BoxesInv", "TrunksInv", "TrunkInsideInv", "MirrorInv", "ExactInv"]
    mc.explore(ctx, "Packing", "Packing machine: subtree packing keeps boxes and trunks apart (both orientations)",
               constants=consts, invariants=invs, mc_text=text)
    # wide and tall trunks on the shape where a grandchild's trunk reaches a neighbouring subtree
    wide = "MCShapes == {<<0, 1, 1, 3, 4, 4, 6, 6, 3>>}\nMCTrunks == {<<0, 32>>, <<256, 32>>, <<256, 192>>}"
    mc.explore(ctx, "Packing", "Packing machine: wide / tall trunks (repaired packing grows the box)",
               constants=dict(consts, Forks="{0}"), invariants=invs, mc_text=wide)
    mc.refuted(ctx, "Packing", "GrowBox=FALSE (pinned tree: a wide trunk sticks out of its box, defect D9)",
               constants=dict(consts, Forks="{0}", GrowBox="FALSE"), invariants=["TrunksInv"], mc_text=wide)
    mc.refuted(ctx, "Packing", "ShiftBug=TRUE (right subtree not shifted by the extent of the left one)",
               constants=dict(consts, ShiftBug="TRUE"), invariants=["BoxesInv", "TrunksInv"],
               mc_text="MCShapes == BinShapesUpTo(3)\nMCTrunks == {<<0, 32>>, <<96, 64>>}")
    tlaps_lemmas(ctx)
    ctx.stage("E1 packing model")

    costs = [gen.cost(0, 1, 1, 1, 1)]
    inputs = list(gen.dtl_inputs(gen.bin_shapes_upto(3), gen.bin_shapes_upto(3), costs))
    inputs += rng.sample(list(gen.dtl_inputs(gen.bin_shapes(4), gen.bin_shapes_upto(4 if thorough else 3), costs)),
                         500 if thorough else 70)
    inputs = list(dict.fromkeys(inputs))
    expect = dc.tlc_generate(ctx, inputs, "THL SpecGen (all valid reconciliations)", invariants=())
    jobs = []
    for inp in inputs:
        exp = expect.get(inp)
        if exp is None:
            continue
        valid = sorted(tuple(p[0]) for p in exp["ranked"] if p[1] < proj.INF)
        if len(valid) > 25 and not thorough:
            valid = rng.sample(valid, 25)
        for m in valid:
            seed = rng.randrange(10 ** 6)
            fam, lab, sinp = "dtl", None, inp
            if seed % 5 == 0 and len(inp["ot"]) > 1:
                fam = rng.choice(["ord", "un"])
                syn, _ = sc.random_syn(rng, fam, inp["ot"], 3, 0.0)
                sinp = sc.sinput(inp["ot"], inp["st"], inp["lm"], inp["c"], [sorted(s) for s in syn])
                lab = c13.labels_for(rng, sinp, m, fam)
            jobs.append((sinp, m, fam, lab, seed))
    # the witness of the repaired defect D9 (a grandchild trunk wider than its subtree), kept as a regression input
    wit = proj.inp_record((0, 1, 2, 2, 4, 4, 6, 6, 1, 9, 9), (0, 1, 1, 3, 4, 4, 6, 6, 3, 9, 9),
                          (0, 0, 2, 0, 2, 0, 2, 10, 0, 7, 2), costs[0])
    jobs.append((wit, (3, 2, 2, 3, 2, 9, 2, 10, 3, 7, 2), "dtl", None, 738644))
    A = proj.api()
    from superrec2.compute.reconciliation import reconcile_thl
    for _ in range(150 if thorough else 20):
        inp = dc.random_input(rng, 10 if thorough else 8, 6, costs=[gen.cost(0, 1, 1, 1, 1), gen.cost(0, 1, 0, 0, 1)], min_obj=5)
        built = proj.build_input(A, inp)
        res = mc.safe(lambda: list(reconcile_thl(built.input, A.dp.RetentionPolicy.ALL)))
        if isinstance(res, mc.Raised):
            continue
        for out in res[:3]:
            jobs.append((inp, proj.mapping_of(built, out), "dtl", None, rng.randrange(10 ** 6)))
    size = max(1, len(jobs) // 96)
    chunks = [jobs[i:i + size] for i in range(0, len(jobs), size)]
    with multiprocessing.get_context("fork").Pool(16) as pool:
        sessions = [s for part in pool.imap(_worker, chunks) for s in part]
    ctx.stage("layouts")
    for events in sessions:
        e = events[0]
        if len(e["in"]["st"]) >= 3:
            ctx.nontrivial.add((tuple(e["in"]["ot"]), tuple(e["in"]["st"]), tuple(e["in"]["lm"]), tuple(e["m"]), e["seed"]))
        for ev in events:
            if ev["op"] == "layout" and ev["exc"]:
                ctx.violation(f"layout.compute / tikz.render fails ({ev['orient']}) on mapping {ev['m']} of {ev['in']}: {ev['exc']}",
                              {"engine": "E2", "event": {k: v for k, v in ev.items() if k != "species"}})
    sessions = [[ev for ev in events if not (ev["op"] == "layout" and ev["exc"])] for events in sessions]
    sample = sessions[len(sessions) // 2][0]
    ctx.sample({"engine": "E2-trace", "event": {k: (v if k != "species" else v[:2]) for k, v in sample.items()}})
    mc.validate_sessions(ctx, "TraceGeometry", sessions, relevant=CLAUSES, count_traces=sum(len(s) for s in sessions),
                         describe=lambda e, cl: f"{e['op']} event of mapping {e['m']} on {e['in']} (seed {e['seed']}, "
                                                f"{e.get('orient', '')}) violates {cl}")
    branches_model(ctx, sessions, thorough)
    sp = [{"sp": 1, "rect": [0, 0, 10, 10], "trunk": [4, 0, 2, 4], "fork": 1, "anchors": [], "branches": []},
          {"sp": 2, "rect": [0, 6, 4, 4], "trunk": [1, 6, 2, 4], "fork": 0, "anchors": [], "branches": []},
          {"sp": 3, "rect": [6, 6, 4, 4], "trunk": [7, 6, 2, 4], "fork": 0, "anchors": [], "branches": []}]
    lit = [{"op": "layout", "st": [0, 1, 1], "finite": True, "species": sp, "tol": 0}]
    mc.trace_selftest(ctx, "TraceGeometry", lit,
                      lambda s: [dict(s[0], species=[sp[0], sp[1], dict(sp[2], rect=[3, 6, 4, 4])])],
                      what="overlapping sibling boxes")
    ctx.stage("trace validation")


def replay(path):
    import json
    from lib.harness import Context
    A = rc.api()
    with open(path, encoding="utf-8") as handle:
        case = json.load(handle)["case"]
    e = case.get("event", case)
    if "in" not in e or "m" not in e:
        return 2
    ctx = Context("C14", "quick", 0)
    ctx.known = []
    inp = sc.sinput(e["in"]["ot"], e["in"]["st"], e["in"]["lm"], gen.cost(0, 1, 1, 1, 1),
                    e.get("syn") or [[] for _ in e["in"]["ot"]])
    events = session(A, (inp, e["m"], e.get("fam", "dtl"), e.get("lab") or None, e.get("seed", 0)))
    bad = 0
    for ev in events:
        if ev["op"] == "layout" and ev.get("exc"):
            print("fails:", ev["exc"])
            bad += 1
    events = [ev for ev in events if not (ev["op"] == "layout" and ev.get("exc"))]
    bad += len(mc.validate_sessions(ctx, "TraceGeometry", [events], relevant=CLAUSES))
    return 1 if bad else 0
