"""C19 - topological orderings are enumerated completely and without repetition.

E1: Toposort.tla - the backtracking enumerator as a state machine with an
    explicit stack (Pick / Resume / Return / Base / Finish), invariants
    ResultInv (bag of results = AllOrders by permutation filtering), RestoreInv,
    IndegInv, FrameInv; every digraph on <= 3 vertices under *every* iteration
    order of the start sets, every digraph on 4 vertices under ascending order;
    Kahn.tla - toposort with every insertion order and every append order.
E2: ToposortGen dumps AllOrders for every graph; each graph is replayed through
    toposort_all / toposort as dicts in several insertion orders and labelings.
E3: random digraphs up to 7 vertices and the precedence graphs built by
    _make_prec_graph, recorded and validated by TraceToposort.tla.
"""
import itertools
import random

from lib import mc, tlaval
from lib.harness import setup_repo_path


def _api():
    setup_repo_path()
    from superrec2.utils import toposort
    from superrec2.compute import super_reconciliation as sr
    return toposort, sr


# vertices that are falsy or None: "every directed graph" does not exclude them
FALSY = {1: 0, 2: "", 3: None, 4: 0.5, 5: (), 6: "0", 7: -1}


def presentations(n, edges, rng=None):
    """The same graph as dicts: insertion orders and vertex labels vary."""
    verts = list(range(1, n + 1))
    orders = [verts, verts[::-1]]
    if rng is not None and n > 2:
        extra = verts[:]
        rng.shuffle(extra)
        orders.append(extra)
    for order in orders:
        for label in (lambda v: v, lambda v: f"g{v}", lambda v: (v % 2, -v), FALSY.get):
            graph = {label(u): set() for u in order}
            for u, v in sorted(edges, reverse=(order is not verts)):
                graph[label(u)].add(label(v))
            yield graph, {label(v): v for v in verts}


def observe(topo, graph, back):
    out = mc.safe(topo.toposort_all, graph)
    one = mc.safe(topo.toposort, graph)
    if not isinstance(out, mc.Raised):
        out = [[back[v] for v in order] for order in out]
    if not isinstance(one, mc.Raised) and one is not None:
        one = [back[v] for v in one]
    return out, one


def judge(ctx, n, edges, orders, out, one, where):
    want = sorted(tuple(o) for o in orders)
    case = {"engine": where, "op": "all", "nv": n, "edges": sorted(list(e) for e in edges)}
    if isinstance(out, mc.Raised):
        ctx.violation(f"toposort_all fails on {case['edges']} ({n} vertices): {out.text}", dict(case, observed=out.text))
    else:
        got = sorted(tuple(o) for o in out)
        if got != want:
            ctx.violation(f"toposort_all on edges {case['edges']} ({n} vertices): {len(got)} orderings "
                          f"({len(got) - len(set(got))} repeated), {len(want)} exist; missing "
                          f"{sorted(set(want) - set(got))[:3]} extra {sorted(set(got) - set(want))[:3]}",
                          dict(case, observed=[list(o) for o in got][:30], expected=[list(o) for o in want][:30]))
    case = dict(case, op="one")
    if isinstance(one, mc.Raised):
        ctx.violation(f"toposort fails on {case['edges']}: {one.text}", dict(case, observed=one.text))
    elif one is None:
        if want:
            ctx.violation(f"toposort returns None on edges {case['edges']} ({n} vertices) although "
                          f"{len(want)} orderings exist", dict(case, observed=None))
    elif tuple(one) not in set(want):
        ctx.violation(f"toposort returns {one} on edges {case['edges']} ({n} vertices): not a topological ordering",
                      dict(case, observed=one))


def find_cycle_model(ctx, topo, thorough):
    """Beyond the listed properties, never gating: find_cycle (the routine behind
    the family-cycle warning) against FindCycle.tla.  TLC checks what the routine
    guarantees, refutes what its docstring promises beyond that, and every answer
    of the code on the 512 graphs on three vertices must be one the machine can
    give (successor sets are scanned in any order there)."""
    consts = {"N": "3", "Graphs": "<- AllGraphs"}
    _, states = mc.explore(ctx, "FindCycle", "FindCycle machine, 3 vertices, every scan order (outside the listed properties)",
                           constants=consts, invariants=["ParentEdges", "NoneSound", "FoundWhenReachable"],
                           properties=["Terminates"], dump=True)
    if thorough:
        mc.explore(ctx, "FindCycle", "FindCycle machine, 4 vertices (outside the listed properties)",
                   constants=dict(consts, N="4"), invariants=["ParentEdges", "NoneSound", "FoundWhenReachable"])
    for inv in ("IsCycle", "NoneComplete"):
        res, _ = mc.explore(ctx, "FindCycle", inv, constants=consts, invariants=[inv], expect_violation=True)
        ctx.note(f"find_cycle (outside the listed properties): {inv} is "
                 + ("refuted by TLC - the routine can name a non-cycle of an acyclic graph / miss a cycle its first key does not reach"
                    if not res.ok else "NOT refuted - FindCycle.tla no longer shows the known deviation"))
    answers = {}
    for state in states:
        if state["pc"] in ("none", "list"):
            key = tuple(frozenset(state["g"][v - 1]) for v in (1, 2, 3))
            answers.setdefault(key, set()).add(None if state["pc"] == "none" else tuple(state["cycle"]))
    drift = 0
    for key, want in sorted(answers.items(), key=repr):
        graph = {v: set(key[v - 1]) for v in (1, 2, 3)}
        got = mc.safe(topo.find_cycle, graph)
        got = got if got is None or isinstance(got, mc.Raised) else tuple(got)
        if isinstance(got, mc.Raised) or got not in want:
            drift += 1
            if drift <= 3:
                ctx.note(f"drift outside the listed properties: find_cycle({graph}) = {got!r}, FindCycle.tla allows {sorted(want, key=repr)}")
    ctx.extra["find_cycle"] = {"graphs_replayed": len(answers), "answers_not_allowed_by_the_machine": drift}
    ctx.stage("beyond: find_cycle")


def run(ctx):
    topo, sr = _api()
    thorough = ctx.tier == "thorough"
    rng = random.Random(ctx.seed * 6007 + 19)
    ctx.rule = ("E1/E2: every digraph (self-loops included) on <= 4 vertices; E3: random digraphs on 5-7 vertices and "
                "precedence graphs of random leaf syntenies. Non-trivial = graph with at least one edge and two "
                "vertices; distinct = distinct (vertex count, edge set).")
    ctx.assumptions += ["graphs are dicts mapping every vertex to the set of its successors (documented form)"]

    # ---- E1 -----------------------------------------------------------------
    small = "MCGraphs == UNION {AllGraphs(k) : k \\in 0..3}"
    four = "MCGraphs == AllGraphs(4)"
    invs = ["ResultInv", "RestoreInv", "IndegInv", "FrameInv"]
    mc.explore(ctx, "Toposort", "Toposort machine, <= 3 vertices, every iteration order",
               constants={"Graphs": "<- MCGraphs", "IterOrder": '"any"', "NoRestore": "FALSE"},
               invariants=invs, mc_text=small)
    mc.explore(ctx, "Toposort", "Toposort machine, 4 vertices, ascending iteration",
               constants={"Graphs": "<- MCGraphs", "IterOrder": '"asc"', "NoRestore": "FALSE"},
               invariants=invs, mc_text=four)
    mc.explore(ctx, "Kahn", "Kahn machine, <= 3 vertices, every insertion and append order",
               constants={"Graphs": "<- MCGraphs"}, invariants=["ResultInv", "PrefixInv"], mc_text=small)
    if thorough:
        mc.explore(ctx, "Kahn", "Kahn machine, 4 vertices", constants={"Graphs": "<- MCGraphs"},
                   invariants=["ResultInv", "PrefixInv"], mc_text=four)
    ctx.stage("E1")
    mc.refuted(ctx, "Toposort", "NoRestore=TRUE",
               constants={"Graphs": "<- MCGraphs", "IterOrder": '"asc"', "NoRestore": "TRUE"},
               invariants=["ResultInv"], mc_text=small)

    # ---- E2 -----------------------------------------------------------------
    n = 0
    for text, name in ((small, "<= 3 vertices"), (four, "4 vertices")):
        _, states = mc.explore(ctx, "ToposortGen", f"ToposortGen {name}", constants={"Graphs": "<- MCGraphs"},
                               dump=True, mc_text=text)
        for state in states:
            if state["val"][0] != "orders":
                continue
            graph = state["key"]
            nv, edges, orders = graph["n"], graph["e"], state["val"][1]
            if nv >= 2 and edges:
                ctx.nontrivial.add((nv, edges))
            for pres, back in presentations(nv, edges):
                out, one = observe(topo, pres, back)
                judge(ctx, nv, edges, orders, out, one, "E2")
                n += 2
            if n % 70000 < 18:
                ctx.sample({"nv": nv, "edges": sorted(list(e) for e in edges), "orderings": len(orders)})
    ctx.evaluations += n
    ctx.traces += n
    ctx.stage("E2")

    # ---- E3 -----------------------------------------------------------------
    events = []
    for _ in range(1200 if thorough else 200):
        nv = rng.randint(5, 7)
        verts = list(range(1, nv + 1))
        perm = verts[:]
        rng.shuffle(perm)
        density = rng.choice([0.15, 0.3, 0.5])
        edges = set()
        for i, j in itertools.combinations(range(nv), 2):
            if rng.random() < density:
                edges.add((perm[i], perm[j]))
        if rng.random() < 0.25:   # close a cycle or add a self-loop
            u, v = rng.choice(verts), rng.choice(verts)
            edges.add((u, v))
        while len(edges) < nv - 2:   # keep the number of orderings moderate
            i, j = sorted(rng.sample(range(nv), 2))
            edges.add((perm[i], perm[j]))
        pres = list(presentations(nv, edges, rng))
        graph, back = rng.choice(pres)
        out, one = observe(topo, graph, back)
        base = {"nv": nv, "edges": sorted(list(e) for e in edges)}
        ctx.nontrivial.add((nv, frozenset(edges)))
        events.append(dict(base, op="all", out=[[-99]] if isinstance(out, mc.Raised) else out))
        events.append(dict(base, op="one", none=one is None,
                           out=[-99] if isinstance(one, mc.Raised) else (one or [])))
    # precedence graphs of leaf syntenies, as the ordered solvers build them
    for _ in range(400 if thorough else 80):
        nf = rng.randint(2, 6)
        ref = list(range(1, nf + 1))
        rng.shuffle(ref)
        syn = {}
        for leaf in range(rng.randint(1, 5)):
            pick = [f for f in ref if rng.random() < 0.6] or [rng.choice(ref)]
            if rng.random() < 0.2:
                rng.shuffle(pick)
            syn[f"l{leaf}"] = [f"f{f}" for f in pick]
        graph = mc.safe(sr._make_prec_graph, syn)
        if isinstance(graph, mc.Raised):
            ctx.violation(f"_make_prec_graph fails on {syn}: {graph.text}", {"engine": "E3", "op": "prec", "syn": syn})
            continue
        used = sorted({f for fams in syn.values() for f in fams})
        ids = {f: i for i, f in enumerate(used, start=1)}
        want_edges = {(ids[a], ids[b]) for fams in syn.values() for a, b in zip(fams, fams[1:])}
        got_edges = {(ids[a], ids[b]) for a, succs in graph.items() for b in succs}
        if set(graph) != set(used) or got_edges != want_edges:
            ctx.violation(f"_make_prec_graph({syn}) has edges {sorted(got_edges)}, adjacent pairs are {sorted(want_edges)}",
                          {"engine": "E3", "op": "prec", "syn": syn})
        out, one = observe(topo, graph, ids)
        base = {"nv": len(used), "edges": sorted(list(e) for e in got_edges)}
        events.append(dict(base, op="all", out=[[-99]] if isinstance(out, mc.Raised) else out))
    ctx.sample({"engine": "E3-trace", "event": {k: (v if k != "out" else v[:3]) for k, v in events[0].items()}})
    mc.validate_sessions(ctx, "TraceToposort", [[e] for e in events], count_traces=len(events),
                         describe=lambda e, cl: f"recorded toposort {e['op']} on {e['nv']} vertices, edges {e['edges']} "
                                                f"fails {cl} (returned {len(e['out'])} items)")
    lit = [{"op": "all", "nv": 3, "edges": [[1, 2]], "out": [[1, 2, 3], [1, 3, 2], [3, 1, 2]]},
           {"op": "one", "nv": 2, "edges": [[1, 2], [2, 1]], "none": True, "out": []}]
    mc.trace_selftest(ctx, "TraceToposort", lit,
                      lambda s: [dict(s[0], out=s[0]["out"][:2]), dict(s[1], none=False, out=[1, 2])],
                      what="a missing ordering and an ordering of a cyclic graph")
    ctx.stage("E3")
    find_cycle_model(ctx, topo, thorough)


def replay(path):
    import json
    from lib.harness import Context
    topo, _ = _api()
    with open(path, encoding="utf-8") as handle:
        case = json.load(handle)["case"]
    if "event" in case:
        case = case["event"]
    if "nv" not in case:
        print("nothing to replay in", path)
        return 2
    ctx = Context("C19", "quick", 0)
    ctx.known = []
    edges = {tuple(e) for e in case["edges"]}
    events = []
    for graph, back in presentations(case["nv"], edges):
        out, one = observe(topo, graph, back)
        base = {"nv": case["nv"], "edges": sorted(list(e) for e in edges)}
        events.append(dict(base, op="all", out=[[-99]] if isinstance(out, mc.Raised) else out))
        events.append(dict(base, op="one", none=one is None, out=[-99] if isinstance(one, mc.Raised) else (one or [])))
    print("observed:", events[0], events[1])
    bad = mc.validate_sessions(ctx, "TraceToposort", [events])
    return 1 if bad else 0
