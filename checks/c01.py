"""C01 - general DTL reconciliation returns a minimum-cost reconciliation; the
exhaustive enumerator yields every valid reconciliation exactly once.

E1: THL!SpecSteps (table filled one object node per action, decode, rank) with
    CellInv (every row = Bellman optimum L1) and ResultInv (result = explicit
    enumeration L0); L1 = L0 on every generated input; defect constants refuted.
E2: every input TLC enumerates is replayed through reconcile_thl (ALL, ANY),
    reconcile_exhaustive (ALL, ANY) and generate_all; compared with L0.
E3: random larger inputs recorded and validated by TraceDTL.tla against L1.
"""
import random

from lib import gen, proj, tlc
from lib.proj import INF
from . import dtl_common as dc

CLAUSES = {"NoFailure", "Valid", "Min", "GenAllExact", "CostRecount"}
TRACE_CLAUSES = {"ClauseNoFailure", "ClauseTotalMapping", "ClauseValid", "ClauseMin",
                 "ClauseFiniteCost", "ClauseCostRecount"}
ALGOS = ("thl_all", "thl_any", "exh_all", "exh_any", "genall")


def input_sets(tier, rng):
    costs = gen.QUICK_COSTS
    small = list(gen.dtl_inputs(gen.bin_shapes_upto(3), gen.bin_shapes_upto(3), costs))
    four = list(gen.dtl_inputs(gen.bin_shapes(4), gen.bin_shapes_upto(3), costs[:6]))
    if tier == "quick":
        # all object shapes <= 4 leaves x species shapes <= 3 leaves x all leaf maps,
        # plus a seeded sample of the 4 x 4 space
        four = list(gen.dtl_inputs(gen.bin_shapes(4), gen.bin_shapes_upto(3), costs[:4]))
        four4 = list(gen.dtl_inputs(gen.bin_shapes(4), gen.bin_shapes(4), costs[:4]))
        return small + four + rng.sample(four4, 400)
    grid = [c for c in gen.cost_grid(proj.coherent_dtl) if c["sloss"] == 0]
    out = small + four
    out += list(gen.dtl_inputs(gen.bin_shapes_upto(3), gen.bin_shapes_upto(3), rng.sample(grid, 40)))
    out += list(gen.dtl_inputs(gen.bin_shapes(4), gen.bin_shapes(4), costs[:6]))
    five = list(gen.dtl_inputs(gen.bin_shapes(5), gen.bin_shapes_upto(3), costs[:4]))
    out += rng.sample(five, 4000)
    five4 = list(gen.dtl_inputs(gen.bin_shapes(5), gen.bin_shapes(4), [gen.DEFAULT]))
    out += rng.sample(five4, 1500)
    # caterpillar / balanced species trees with 5 and 6 leaves
    for n in (5, 6):
        for st in (gen.caterpillar(n), gen.balanced(n)):
            for _ in range(150):
                ot = gen.random_bin_shape(rng, rng.randint(3, 4))
                out.append(proj.inp_record(ot, st, gen.random_leaf_map(rng, ot, st), rng.choice(costs)))
    return list(dict.fromkeys(out))


def run(ctx):
    thorough = ctx.tier == "thorough"
    rng = random.Random(ctx.seed * 1009 + 1)
    ctx.rule = ("E1/E2: every ordered binary object shape x species shape x leaf assignment x cost vector of the "
                "bounded domain (plus seeded samples of the next size); E3: seeded random inputs with 5-7 object "
                "leaves. Non-trivial = at least 2 object leaves and at least 2 valid reconciliations; "
                "distinct = distinct (trees, leaf map, costs) records.")
    ctx.assumptions += [
        "cost vectors inside spe <= dup + 2*floss (outside: known finding F-COHERENCE, witnesses only)",
        "the event model of Events.tla is the documented one (cross-checked against the evaluator by C06)",
    ]
    inputs = input_sets(ctx.tier, rng)

    # E1: the algorithm as a state machine against L1 / L0
    step_inputs = inputs if not thorough else inputs[:12000]
    dc.tlc_steps(ctx, step_inputs, "THL SpecSteps (CellInv, ResultInv)")
    ctx.stage('E1 steps')
    # binding self-test: every defect constant of the pinned tree is refuted by TLC
    probe = list(gen.dtl_inputs(gen.bin_shapes_upto(4), gen.bin_shapes_upto(3),
                                gen.QUICK_COSTS[:5] if thorough else gen.QUICK_COSTS[:1]))
    for const in (("LossAfterMin", "NoSpeCost", "RootOnlyDecode") if thorough else ("LossAfterMin",)):
        res = dc.tlc_steps(ctx, probe, const, consts={const: "TRUE"}, expect_violation=True)
        if res.ok:
            raise tlc.MachineryError(f"self-test: defect constant {const} was not refuted by TLC")
        ctx.note(f"self-test: {const}=TRUE refuted by TLC ({','.join(res.violated)})")

    # the exhaustive enumerator in the shape of the code: bag = valid reconciliations, each once
    exh_inputs = [i for i in inputs if len(i["ot"]) <= 7][:(6000 if thorough else 2500)]
    exhaustive_model(ctx, exh_inputs, probe[:400])
    ctx.stage('selftest')
    # E2: expectations from L0, replay through the real code
    expect = dc.tlc_generate(ctx, inputs, "THL SpecGen (L0 expectations, L1 = L0)")
    ctx.stage('E2 generate')
    results = dc.replay_all([(inp, ALGOS) for inp in inputs])
    ctx.stage('E2 replay')
    seen = 0
    for inp, obs in results:
        exp = expect.get(inp)
        if exp is None:
            continue
        ctx.count(inp, nontrivial=dc.nontrivial(inp, exp))
        seen += 1
        if seen % 1500 == 1:
            ctx.sample({"input": proj.inp_to_json(inp), "min": exp["min"], "n_opt": len(exp["opt"]),
                        "n_valid": len(exp["ranked"]), "thl_all": obs["thl_all"]["sols"][:3]})
        reported = set()
        for algo, clause, text in dc.judge(inp, obs, exp, CLAUSES):
            if (algo, clause) in reported:
                continue
            reported.add((algo, clause))
            ctx.violation(f"[{clause}] {text} on {proj.inp_to_json(inp)}", dc.case_of(inp, algo, obs[algo], exp))
    ctx.traces += seen

    ctx.stage('E2 judge')
    # known finding F-COHERENCE: replay the listed witnesses only
    replay_known(ctx)

    # E3: larger random inputs, validated by TLC against the Bellman layer
    n = 2500 if thorough else 240
    big = []
    for _ in range(n):
        big.append(dc.random_input(rng, 7 if thorough else 6, 6, min_obj=4))
    big = list(dict.fromkeys(big))
    results = dc.replay_all([(inp, ("thl_all", "thl_any")) for inp in big])
    events = []
    for inp, obs in results:
        events.extend(dc.events_of(inp, obs))
        ctx.nontrivial.add(inp)
    ctx.stage('E3 record')
    verdicts, index = dc.validate_events(ctx, events, "TraceDTL")
    ctx.stage('E3 validate')
    ctx.sample({"engine": "E3-trace", "event": {k: v for k, v in events[0].items() if k != "sols"},
                "n_sols": len(events[0]["sols"])})
    for nn, clauses in verdicts:
        clauses = [c for c in clauses if c in TRACE_CLAUSES]
        if not clauses:
            continue
        event = index[nn]
        ctx.violation(f"recorded {event['op']}/{event['policy']} run fails {clauses} on {event['in']}",
                      {"engine": "E3", "algo": f"{event['op']}_{event['policy'].lower()}", "input": event["in"],
                       "clauses": clauses, "observed": {"exc": event["exc"], "sols": event["sols"][:10],
                                                       "costs": event["costs"][:10]}})


def exhaustive_model(ctx, inputs, probe):
    import os
    import shutil
    wdir = tlc.make_workdir("verif-exh-")
    try:
        for name, ins, stop, invs in (("Exhaustive.tla: generate_all (code-shaped) = valid reconciliations, each once", inputs, "FALSE", True),
                                      ("StopEarly", probe, "TRUE", False)):
            path = gen.write_mc(wdir, "Exhaustive", ins)
            cfg = os.path.join(wdir, "exh.cfg")
            tlc.write_cfg(cfg, spec="Spec", constants={"Inputs": "<- MCInputs", "SpShapes": "<- MCSp", "StopEarly": stop},
                          invariants=["ExactInv"])
            res = tlc.run(path, cfg, workdir=wdir)
            if invs:
                ctx.add_tlc(name, res)
                if not res.ok:
                    ctx.violation("specification (Exhaustive): ExactInv violated",
                                  {"engine": "E1", "trace": tlc.counterexample(res)[:4000]})
            elif res.ok:
                raise tlc.MachineryError("self-test: StopEarly = TRUE was not refuted by TLC")
            else:
                ctx.note("self-test: Exhaustive!StopEarly=TRUE refuted by TLC")
    finally:
        shutil.rmtree(wdir, ignore_errors=True)


def replay_known(ctx):
    """Witness inputs of recorded findings are replayed; a mismatch is reported
    through ctx.violation, which turns a listed witness into KNOWN-FINDING."""
    witnesses = [f for f in ctx.known if f.get("witness", {}).get("family") == "dtl"]
    if not witnesses:
        return
    inputs = []
    for finding in witnesses:
        w = finding["witness"]["input"]
        inputs.append(proj.inp_record(w["ot"], w["st"], w["lm"], w["c"]))
    expect = dc.tlc_generate(ctx, inputs, "known-finding witnesses (L0)", invariants=())
    for finding, inp in zip(witnesses, inputs):
        algo = finding["witness"]["algo"]
        obs = dc.observe_dtl(inp, (algo,))
        bad = list(dc.judge(inp, obs, expect[inp], CLAUSES))
        if bad:
            ctx.violation(bad[0][2], dc.case_of(inp, algo, obs[algo], expect[inp]))
        else:
            print(f"NOTE: property={ctx.prop} listed witness {finding['id']} no longer fails", flush=True)


def replay(path):
    return dc.replay(path, "C01", CLAUSES | {"AllExact", "AnyMember"})
