"""C03 - unordered super-reconciliation (SuperDTL) returns a minimum-cost solution.

E1: Unordered!SpecGen (L1 over *every* labelling between the required and the
    allowed content = explicit enumeration L0 on the smallest bound; the lemma
    CanonLemma: restricting to the two canonical labellings per node loses
    nothing; optimal solutions valid) and Unordered!SpecSteps (the LCA / INHERIT
    recurrence of _compute_uspfs_entry filled one object node per action,
    CellInv: LCA entry = optimum with the required content, INHERIT entry =
    optimum with any larger content), extended and base variants.
E2: every TLC-listed input runs through usreconcile_extended_uspfs and
    usreconcile_base_uspfs (ALL, ANY); the recorded calls are judged by TLC
    (TraceUnordered.tla).
E3: seeded random larger inputs (5-6 object leaves, <= 4 species leaves, 4
    families) and a directed family "two INHERIT siblings, one of which gains a
    family" for the decoder.
"""
import random

from lib import gen, proj
from . import super_common as sc

CLAUSES = {"ClauseNoFailure", "ClauseMin", "ClauseEmptyIffNoSolution", "ClauseFiniteCost", "ClauseTotalMapping",
           "ClauseCanonLemma"}
FAM = "un"
LEAF_SYNS = [(1,), (2,), (1, 2)]


def directed_inputs(rng, n):
    """Object trees ((a,(b,c)),(d,e))-like where a family is gained inside a
    subtree whose ancestors inherit other families: exercises the top-down
    decoder with INHERIT siblings."""
    out = []
    shapes = [s for s in gen.bin_shapes(5)] + [s for s in gen.bin_shapes(6)][::3]
    for _ in range(n):
        ot = rng.choice(shapes)
        st = rng.choice(gen.bin_shapes_upto(3))
        lm = gen.random_leaf_map(rng, ot, st)
        leaves = proj.leaves_of(ot)
        syn = [()] * len(ot)
        # family 1 everywhere at the two ends, 2 and 3 in the middle, 4 rare
        for i, u in enumerate(leaves):
            fams = set()
            if i in (0, len(leaves) - 1) or rng.random() < 0.3:
                fams.add(1)
            if 0 < i < len(leaves) - 1 and rng.random() < 0.7:
                fams.add(2)
            if rng.random() < 0.4:
                fams.add(3)
            if rng.random() < 0.25:
                fams.add(4)
            syn[u - 1] = tuple(sorted(fams or {rng.randint(1, 4)}))
        out.append(sc.sinput(ot, st, lm, rng.choice(sc.SUPER_COSTS), syn))
    # staircases: caterpillars (either hand) whose leaves carry one or two
    # families each, so that families are gained at several successive levels
    # and INHERIT nodes are nested below one another
    for k in range(n):
        ot = (0,)
        for _ in range(rng.choice((4, 4, 5))):
            ot = gen.join(ot, (0,)) if k % 2 else gen.join((0,), ot)
        st = rng.choice(gen.bin_shapes_upto(3))
        lm = gen.random_leaf_map(rng, ot, st)
        syn = [()] * len(ot)
        for u in proj.leaves_of(ot):
            syn[u - 1] = tuple(sorted(rng.sample((1, 2, 3, 4), rng.choice((1, 1, 2)))))
        out.append(sc.sinput(ot, st, lm, rng.choice(sc.SUPER_COSTS), syn))
    return out


def input_sets(tier, rng):
    costs = sc.SUPER_COSTS
    tiny = list(sc.small_inputs(FAM, gen.bin_shapes_upto(3), gen.bin_shapes_upto(2), LEAF_SYNS, costs[:2]))
    mid = []
    for _ in range(1500 if tier == "thorough" else 260):
        mid.append(sc.random_sinput(rng, FAM, 4, 3, 3, costs=costs, min_obj=3))
    return list(dict.fromkeys(tiny)), list(dict.fromkeys(mid))


def run(ctx, clauses=CLAUSES):
    thorough = ctx.tier == "thorough"
    rng = random.Random(ctx.seed * 9011 + 3)
    ctx.rule = ("E1/E2: every leaf assignment x every tuple of leaf family sets over 2 families on object shapes <= 3 "
                "leaves and species shapes <= 2 leaves (explicit enumeration L0), seeded samples with <= 4 object "
                "leaves / 3 species leaves / 3 families (all-labellings Bellman layer L1, code-shaped layer L2); E3: "
                "seeded inputs with 5-6 object leaves, <= 4 species leaves, 4 families and a directed family for the "
                "decoder. Non-trivial = at least 2 object leaves and 2 families; distinct = distinct input records.")
    ctx.assumptions += ["cost vectors inside spe + 2*sloss <= dup + 2*floss (outside: known finding F-COHERENCE)",
                        "leaf syntenies are non-empty family sets (documented domain)"]
    tiny, mid = input_sets(ctx.tier, rng)

    # ---- E1 ------------------------------------------------------------------
    for base in (False, True):
        tag = "base" if base else "extended"
        sc.tlc_gen(ctx, FAM, tiny, base, True, f"Unordered SpecGen {tag}: L1 = L0, canonical lemma (tiny)")
        sc.tlc_gen(ctx, FAM, mid, base, False, f"Unordered SpecGen {tag}: canonical lemma, optimal valid (sampled)")
        sc.tlc_steps(ctx, FAM, tiny[::3] + mid, base, f"Unordered SpecSteps {tag}: LCA/INHERIT cells = Bellman optimum")
    ctx.stage("E1")
    res, _ = sc.tlc_steps(ctx, FAM, tiny, False, "NoLcaLcaCharge", extra={"NoLcaLcaCharge": "TRUE"},
                          expect_violation=True)
    if res.ok:
        raise sc.tlc.MachineryError("self-test: NoLcaLcaCharge = TRUE was not refuted by TLC")
    ctx.note("self-test: NoLcaLcaCharge=TRUE refuted by TLC (" + ",".join(res.violated) + ")")

    # ---- E2 / E3 -----------------------------------------------------------------
    big = []
    for _ in range(900 if thorough else 260):
        big.append(sc.random_sinput(rng, FAM, 6 if thorough else 5, 4, 4, min_obj=5,
                                    costs=sc.SUPER_COSTS if rng.random() < 0.7 else None))
    big += directed_inputs(rng, 500 if thorough else 70)
    tiny3 = list(sc.small_inputs(FAM, gen.bin_shapes(3), gen.bin_shapes(3), LEAF_SYNS, sc.SUPER_COSTS[:1]))
    e2 = (tiny[::2] + mid + tiny3[ctx.seed % 2::2]) if not thorough else tiny + mid + tiny3
    cases = [(FAM, inp, sc.CALLS) for inp in list(dict.fromkeys(e2 + big))]
    if thorough:
        # every tuple of leaf family sets over 3 families on one 5-leaf caterpillar
        import itertools
        ot, st = gen.caterpillar(5), gen.caterpillar(3)
        sets = [tuple(f for i, f in enumerate((1, 2, 3)) if mask >> i & 1) for mask in range(1, 8)]
        lm = gen.random_leaf_map(rng, ot, st)
        leaves = proj.leaves_of(ot)
        sweep = []
        for combo in itertools.product(sets, repeat=5):
            syn = [()] * len(ot)
            for u, s_ in zip(leaves, combo):
                syn[u - 1] = s_
            sweep.append(sc.sinput(ot, st, lm, sc.SUPER_COSTS[rng.randrange(len(sc.SUPER_COSTS))], syn))
        cases += [(FAM, inp, (("ext", "ALL"),)) for inp in sweep]
        ctx.extra["caterpillar_sweep"] = len(sweep)
    results = sc.run_all(cases)
    ctx.stage("solver runs")
    for _, inp, events in results:
        if len(inp["ot"]) >= 3 and len({f for s in inp["syn"] for f in s}) >= 2:
            ctx.nontrivial.add(inp)
    ctx.sample({"engine": "E2/E3-trace", "event": {k: v for k, v in results[0][2][0].items() if k != "sols"},
                "n_sols": len(results[0][2][0]["sols"])})
    ctx.sample({"engine": "E2/E3-trace", "event": results[-1][2][0]})
    sc.validate(ctx, results, clauses)
    sc.replay_known(ctx, ('un',), clauses)
    ctx.stage("trace validation")


def replay(path):
    import json
    with open(path, encoding="utf-8") as handle:
        case = json.load(handle)["case"]
    return sc.replay_case("C03", case, CLAUSES)
