"""C12 - the command-line tool names nodes, reports the true cost, writes readable output.

E1: Pipeline.tla - one `reconcile` invocation as a state machine
    (start -> read -> labelled -> solved -> dumped | rejected) over every case of
    a bounded domain (tree shapes, naming patterns that collide with O#/S#,
    algorithm, with / without syntenies): NamesInv (README contract on the
    written names), RejectInv, RuleInv (the code-shaped label rule meets the
    contract); the pinned tree's defect (labels generated only inside the
    super-reconciliation solvers) is refuted as a binding self-test.
E2: every case runs through superrec2.cli.__main__.run() in-process (argv,
    stdin, stdout, stderr redirected); every written line is parsed back as
    `draw` does and projected; `draw ... tikz` runs on it with the stub
    measurer; a few true subprocess invocations.  Judged by TracePipeline.tla.
E3: random documented-format inputs, cost options, both policies.
"""
import itertools
import json
import os
import random
import subprocess
import sys

from lib import docproj, gen, mc, proj, tlc, tlaval
from lib.tlaval import Rec, to_tla

ALGS = ("lca", "thl", "exh", "base_spfs", "ext_spfs", "base_uspfs", "superdtl")
SUPER = ("base_spfs", "ext_spfs", "base_uspfs", "superdtl")
OPATS = ("", "O0", "O1", "O3", "S1", "x")
SPATS = ("", "S0", "S2", "O1", "y")
CLAUSES = {"ClauseRejectStatus", "ClauseRejectWritesNothing", "ClauseExitStatus", "ClauseWritesSolution",
           "ClauseNodeNames", "ClausePrintedCost", "ClauseLeafAssignment", "ClauseDrawAccepts", "ClauseAnyOne", "ClauseAllSupersetOfAny"}


def namings(shape, pats, leaf_name):
    inner = [u for u in range(1, len(shape) + 1) if u in set(shape)]
    for combo in itertools.product(pats, repeat=len(inner)):
        named = [c for c in combo if c]
        if len(named) != len(set(named)):
            continue
        names = [leaf_name(u) for u in range(1, len(shape) + 1)]
        for u, c in zip(inner, combo):
            names[u - 1] = c
        yield tuple(names)


def newick(shape, names):
    def rec(u):
        kids = proj.children_of(shape, u)
        if not kids:
            return names[u - 1]
        return "(" + ",".join(rec(k) for k in kids) + ")" + names[u - 1]
    return rec(1) + ";"


def make_cases(rng, tier):
    ocases = []
    for shape in gen.bin_shapes_upto(3 if tier == "quick" else 4):
        if len(shape) == 1:
            continue
        for names in namings(shape, OPATS, lambda u: f"l{u}"):
            ocases.append((shape, names))
    scases = []
    for shape in gen.bin_shapes_upto(3):
        for names in namings(shape, SPATS, lambda u: f"Sp{u}"):
            scases.append((shape, names))
    cases = []
    for ot, onames in ocases:
        for st, snames in rng.sample(scases, 2 if tier == "quick" else 5):
            sleaves = proj.leaves_of(st)
            lm = {u: rng.choice(sleaves) for u in proj.leaves_of(ot)}
            # leaves follow <species>_<id>
            on = list(onames)
            for u, s in lm.items():   # <species>_<id>, the species part in any letter case
                sp = snames[s - 1]
                on[u - 1] = f"{rng.choice([sp.lower(), sp.upper(), sp])}_{u}"
            for alg in ALGS:
                hassyn = rng.random() < 0.6 if alg in SUPER else rng.random() < 0.3
                cases.append(Rec(ot=ot, onames=tuple(on), st=st, snames=snames, alg=alg, hassyn=hassyn,
                                 lm=tuple(sorted(lm.items()))))
    return cases


def input_json(case, rng, with_mapping=True, costs=None):
    ot, st = case["ot"], case["st"]
    data = {"object_tree": newick(ot, case["onames"]), "species_tree": newick(st, case["snames"])}
    lm = dict(case["lm"])
    if with_mapping:
        data["leaf_object_species"] = {case["onames"][u - 1]: case["snames"][s - 1] for u, s in lm.items()}
    if case["hassyn"]:
        ref = ["g1", "g2", "g3"]
        data["leaf_syntenies"] = {case["onames"][u - 1]: [g for g in ref if rng.random() < 0.7] or ["g1"]
                                  for u in proj.leaves_of(ot)}
    return data


def run_case(A, case, rng, policy, extra_args=(), with_mapping=True):
    data = input_json(case, rng, with_mapping)
    text = json.dumps(data)
    status, out, err = docproj.run_cli(["reconcile", case["alg"], "--solutions", policy] + list(extra_args), text)
    event = {"op": "cli", "alg": case["alg"], "policy": policy, "hassyn": bool(case["hassyn"]),
             "given": {"onames": list(case["onames"]), "snames": list(case["snames"]),
                       "lm": sorted([u, s] for u, s in dict(case["lm"]).items()),
                       "infer": [] if with_mapping else
                       [[u, case["onames"][u - 1].lower().split("_")] for u in sorted(dict(case["lm"]))],
                       "species": [[i, n.lower().split("_")] for i, n in enumerate(case["snames"], start=1)
                                   if n and i not in set(case["st"])]},
             "exit": 0 if status is None else (status if isinstance(status, int) else 99), "lines": [], "printed": -1,
             "drawn": [], "input": data, "stderr": err[-300:], "args": list(extra_args)}
    if isinstance(status, mc.Raised):
        event["stderr"] = status.text
    for line in err.splitlines():
        if line.startswith("Minimum cost:"):
            val = line.split(":", 1)[1].strip()
            event["printed"] = proj.INF if val in ("inf", "Infinity") else int(float(val))
    keys = []
    for line in out.splitlines():
        if not line.strip():
            continue
        parsed = mc.safe(lambda line=line: docproj.parse_line(A, json.loads(line)))
        if isinstance(parsed, mc.Raised):
            event["lines"].append({"onames": ["<unreadable>"], "snames": ["<unreadable>"], "cost": -3, "lm": [],
                                   "error": parsed.text})
            event["drawn"].append(False)
            continue
        doc = docproj.document(A, parsed)
        event["lines"].append({"onames": doc["onames"], "snames": doc["snames"], "cost": doc["cost"],
                               "ot": doc["ot"], "st": doc["st"], "m": doc["m"], "lab": doc["lab"], "lm": doc["lm"]})
        keys.append(json.dumps([doc["m"], doc["lab"]]))
        dstatus, dout, derr = docproj.run_cli(["draw", "tikz", "--orientation", rng.choice(["vertical", "horizontal"])], line)
        event["drawn"].append(dstatus in (None, 0) and "\\begin{tikzpicture}" in dout)
        if not event["drawn"][-1]:
            event["stderr"] += f" | draw: {dstatus!r} {derr[-200:]}"
    return event, keys


def _case_worker(arg):
    seed0, chunk = arg
    A = proj.api()
    docproj.install_stub_measure(A, seed=seed0)
    out = []
    for i, case, seed in chunk:
        evs = []
        pair = {}
        for policy in ("all", "any"):
            event, keys = run_case(A, case, random.Random(seed), policy, with_mapping=(i % 5 != 0))
            evs.append(event)
            pair[policy] = keys
        if not (case["alg"] in SUPER and not case["hassyn"]):
            evs.append({"op": "cli-pair", "alg": case["alg"], "all": pair["all"], "any": pair["any"],
                        "input": evs[-1]["input"]})
        out.append((i, case, evs))
    return out


def run(ctx):
    A = proj.api()
    docproj.install_stub_measure(A, seed=ctx.seed)
    thorough = ctx.tier == "thorough"
    rng = random.Random(ctx.seed * 9067 + 12)
    ctx.rule = ("cases = object shapes <= 3 (4) leaves x naming patterns of the ancestors from {'', O0, O1, O3, S1, x} x "
                "sampled species trees with patterns from {'', S0, S2, O1, y} x 7 algorithms x with/without syntenies; "
                "each run with --solutions any and all. Non-trivial = at least one unnamed ancestor or a name that looks "
                "like a generated one; distinct = distinct cases.")
    ctx.assumptions += ["input files in the documented format; leaf names <species>_<id>; draw runs with a stub TeX "
                        "measurer (no TeX engine in the sandbox)"]
    cases = make_cases(rng, ctx.tier)
    if len(cases) > 9000:     # the 4-leaf naming space is sampled
        cases = rng.sample(cases, 9000)

    # ---- E1 ------------------------------------------------------------------
    lit = [Rec(ot=c["ot"], onames=c["onames"], st=c["st"], snames=c["snames"], alg=c["alg"], hassyn=c["hassyn"])
           for c in cases]
    lit = list(dict.fromkeys(lit))
    if len(lit) > 2500:       # string-heavy model: a seeded sample of the case space goes through TLC
        lit = rng.sample(lit, 2500)
    text = "MCCases == {" + ",\n".join(to_tla(c) for c in lit) + "}"
    mc.explore(ctx, "Pipeline", "Pipeline machine: names contract, rejection",
               constants={"Cases": "<- MCCases", "LabelOnlyInSuperSolvers": "FALSE"},
               invariants=["NamesInv", "RejectInv", "RuleInv"], mc_text=text, timeout=1200)
    mc.refuted(ctx, "Pipeline", "LabelOnlyInSuperSolvers=TRUE",
               constants={"Cases": "<- MCCases", "LabelOnlyInSuperSolvers": "TRUE"}, invariants=["NamesInv"],
               mc_text="MCCases == {" + ",\n".join(to_tla(c) for c in lit[:300]) + "}", timeout=600)
    ctx.stage("E1")

    # ---- E2 ------------------------------------------------------------------
    events = []
    sel = cases if thorough else cases[ctx.seed % 2::2]
    if len(sel) > 6000:      # the 4-leaf case space is sampled (every case still goes through the TLC machine above)
        sel = rng.sample(sel, 6000)
    jobs = [(i, case, rng.randrange(10 ** 9)) for i, case in enumerate(sel)]
    import multiprocessing
    size = max(1, len(jobs) // 128)
    chunks = [jobs[k:k + size] for k in range(0, len(jobs), size)]
    with multiprocessing.get_context("fork").Pool(16) as pool:
        parts = pool.map(_case_worker, [(ctx.seed, chunk) for chunk in chunks])
    for part in parts:
        for i, case, evs in part:
            events.extend(evs)
            if any(n in ("", "O0", "O1", "O3", "S1") for n in case["onames"]):
                ctx.nontrivial.add(case)
            if i % 400 == 3:
                ctx.sample({"case": {"alg": case["alg"], "input": evs[0]["input"]}, "exit": evs[0]["exit"],
                            "names_written": [l["onames"] for l in evs[0]["lines"][:1]], "printed": evs[0]["printed"]})
    ctx.stage("E2 cli runs")

    # ---- E3: random inputs with cost options, a few true subprocesses -------------
    for _ in range(300 if thorough else 40):
        ot = gen.random_bin_shape(rng, rng.randint(2, 5))
        st = gen.random_bin_shape(rng, rng.randint(1, 4))
        onames = tuple(rng.choice(["", "", f"n{u}", f"O{rng.randint(0, 4)}_"[:-1] if rng.random() < 0.2 else ""])
                       if u in set(ot) else f"l{u}" for u in range(1, len(ot) + 1))
        if len({n for n in onames if n}) != len([n for n in onames if n]):
            continue
        under = rng.random() < 0.4     # species names containing underscores
        snames = ["" if (u in set(st) and rng.random() < 0.6) else (f"Sp_{u}" if under else f"Sp{u}")
                  for u in range(1, len(st) + 1)]
        sl = proj.leaves_of(st)
        if len(sl) >= 2 and rng.random() < 0.35:    # one species name is a proper prefix of another ("q", "q_r")
            snames[sl[0] - 1] = "q"
            snames[sl[1] - 1] = "q_r"
            if len(sl) >= 3 and rng.random() < 0.5:
                snames[sl[2] - 1] = "q_r_t"
        snames = tuple(snames)
        lm = {u: rng.choice(proj.leaves_of(st)) for u in proj.leaves_of(ot)}
        on = list(onames)
        for u, s in lm.items():
            sp = snames[s - 1]
            on[u - 1] = f"{rng.choice([sp.lower(), sp.upper(), sp])}_{u}"
        alg = rng.choice(ALGS)
        case = Rec(ot=ot, onames=tuple(on), st=st, snames=snames, alg=alg, hassyn=rng.random() < 0.7,
                   lm=tuple(sorted(lm.items())))
        args = []
        if rng.random() < 0.5:
            args += ["--cost-hgt", rng.choice(["2", "float('inf')", "0"])]
        if rng.random() < 0.3:
            args += ["--cost-dup", rng.choice(["2", "3"])]
        event, _ = run_case(A, case, rng, rng.choice(["any", "all"]), args, with_mapping=rng.random() < 0.5)
        events.append(event)
        ctx.nontrivial.add(case)
    env = dict(os.environ, PYTHONPATH=os.path.join(os.environ.get("VERIF_REPO", "/repo"), "src"), TQDM_DISABLE="1")
    for alg in ("lca", "superdtl", "thl"):
        with open(os.path.join(os.environ.get("VERIF_REPO", "/repo"), "data", "example.in.json"), encoding="utf-8") as handle:
            text = handle.read()
        try:
            proc = subprocess.run([sys.executable, "-m", "superrec2.cli", "reconcile", alg], input=text, text=True,
                                  capture_output=True, env=env, check=False, timeout=180)
        except subprocess.TimeoutExpired:   # the example takes a second: a run that does not end is a finding
            events.append({"op": "cli", "alg": alg, "policy": "any", "hassyn": True,
                           "given": {"onames": ["", "", "x_1", "x_2", "y_1"], "snames": ["", "X", "Y"],
                                     "lm": [[3, 2], [4, 2], [5, 3]], "infer": [], "species": []},
                           "exit": 99, "lines": [], "printed": -1, "drawn": [],
                           "input": "data/example.in.json (subprocess)", "stderr": "no result after 180 s", "args": []})
            break
        lines = []
        for line in proc.stdout.splitlines():
            parsed = mc.safe(lambda line=line: docproj.parse_line(A, json.loads(line)))
            if isinstance(parsed, mc.Raised):
                lines.append({"onames": ["<unreadable>"], "snames": ["<unreadable>"], "cost": -3, "lm": []})
            else:
                doc = docproj.document(A, parsed)
                lines.append({"onames": doc["onames"], "snames": doc["snames"], "cost": doc["cost"], "lm": doc["lm"]})
        printed = [l for l in proc.stderr.splitlines() if l.startswith("Minimum cost:")]
        events.append({"op": "cli", "alg": alg, "policy": "any", "hassyn": True,
                       "given": {"onames": ["", "", "x_1", "x_2", "y_1"], "snames": ["", "X", "Y"],
                                 "lm": [[3, 2], [4, 2], [5, 3]], "infer": [], "species": []},
                       "exit": proc.returncode, "lines": lines, "printed": int(printed[0].split(":")[1]) if printed else -1,
                       "drawn": [], "input": "data/example.in.json (subprocess)", "stderr": proc.stderr[-200:], "args": []})
    ctx.stage("E3")
    mc.validate_sessions(ctx, "TracePipeline", [[e] for e in events], relevant=CLAUSES, count_traces=len(events),
                         describe=lambda e, cl: (f"reconcile {e.get('alg')} --solutions {e.get('policy')} {e.get('args', '')} "
                                                 f"violates {cl}: exit {e.get('exit')}, printed {e.get('printed')}, "
                                                 f"lines {[(l.get('onames'), l.get('snames'), l.get('cost'), l.get('error', '')) for l in e.get('lines', [])][:2]}, "
                                                 f"stderr {e.get('stderr', '')!r}; input {e.get('input')}"))
    lit = [{"op": "cli", "alg": "lca", "policy": "any", "hassyn": False,
            "given": {"onames": ["", "a_1", "b_2"], "snames": ["", "A", "B"], "lm": [[2, 2], [3, 3]],
                      "infer": [[2, ["a", "1"]], [3, ["b", "2"]]], "species": [[2, ["a"]], [3, ["b"]]]},
            "exit": 0, "lines": [{"onames": ["O0", "a_1", "b_2"], "snames": ["S0", "A", "B"], "cost": 0, "lm": [[2, 2], [3, 3]]}],
            "printed": 0,
            "drawn": [True]}]
    mc.trace_selftest(ctx, "TracePipeline", lit,
                      lambda s: [dict(s[0], lines=[dict(s[0]["lines"][0], onames=["NoName", "a_1", "b_2"])])],
                      what="an unnamed ancestor in the written tree")
    ctx.stage("trace validation")


def replay(path):
    from lib.harness import Context
    A = proj.api()
    docproj.install_stub_measure(A, seed=0)
    with open(path, encoding="utf-8") as handle:
        case = json.load(handle)["case"]
    event = case.get("event", case)
    if event.get("op") not in ("cli", "cli-pair") or not isinstance(event.get("input"), dict):
        return 2
    ctx = Context("C12", "quick", 0)
    ctx.known = []
    text = json.dumps(event["input"])
    bad = 0
    for policy in ("all", "any"):
        status, out, err = docproj.run_cli(["reconcile", event["alg"], "--solutions", policy] + event.get("args", []), text)
        print(policy, "exit", status, "stderr", err.strip()[-200:])
        print(out[:600])
    return 1 if "NoName" in out or bad else 0
