"""C13 - a diagram shows exactly the events the cost model counts.

E1: DrawingMC.tla - for every valid reconciliation of every input of the bound,
    the abstract drawing derived from the event model (one event node per
    object node, loss markers = loss sites, one arrow per transfer) adds up to
    the cost of the reconciliation (DrawCostInv).
E2: every valid reconciliation TLC enumerates (THL!SpecGen: all valid mappings)
    is laid out and drawn, with and without synteny labels, vertically and
    horizontally, with seeded node sizes from the stub measurer; layout
    branches and TikZ statements (located by their coordinates) are projected
    and judged by TraceDrawing.tla against the abstract drawing.
E3: random larger reconciliations (up to 10 leaves; solver outputs and random
    valid mappings).
"""
import multiprocessing
import random

from lib import gen, mc, proj
from . import dtl_common as dc
from . import render_common as rc
from . import super_common as sc

CLAUSES = {"ClauseMeasureCount", "ClauseMeasureOrder", "ClauseNoFailure", "ClauseLayoutEventNodes", "ClauseLayoutLossMarkers", "ClauseLayoutTransfers",
           "ClauseDrawnEventNodes", "ClauseDrawnLossMarkers", "ClauseDrawnTransferArrows", "ClauseDrawnStatementsLocated",
           "ClauseNodesInsideSpecies"}


def drawing_event(A, inp, m, fam, orient, seed, lab=None, rng=None):
    sol = {"m": list(m), "lab": lab or [[] for _ in m]}
    rec, onodes, snodes = rc.build_rec(A, inp, sol, fam)
    params = rc.params_for(A, "VERTICAL" if orient == "V" else "HORIZONTAL", rng)
    event = {"op": "drawing", "in": {"ot": list(inp["ot"]), "st": list(inp["st"]), "lm": list(inp["lm"])},
             "m": list(m), "orient": orient, "fam": fam, "seed": seed, "lay_events": [], "lay_losses": [], "lay_arrows": [],
             "tikz_events": [], "tikz_losses": [], "tikz_arrows": [], "problems": [], "exc": "",
             "lab": sol["lab"], "c": {k: inp["c"][k] for k in proj.COST_KEYS}, "syn": [list(s) for s in inp.get("syn", [])]}
    res = rc.render(A, rec, params, seed)
    if isinstance(res, mc.Raised):
        event["exc"] = res.text
        return event
    lay, text, stub = res
    image = rc.project_layout(A, lay, onodes, snodes)
    # where the nodes are: every node and loss marker lies in the box of the species it belongs
    # to and outside the boxes of that species' children ("placed in the species", geometrically)
    if image["finite"]:
        event["st"] = list(inp["st"])
        event["tol"] = image["tol"]
        event["boxes"] = [sp["rect"] for sp in image["species"]]
        event["nodes"] = [[sp["sp"]] + list(br["rect"]) for sp in image["species"] for br in sp["branches"]]
    for sp in image["species"]:
        for br in sp["branches"]:
            if br["kind"] == "X":
                event["lay_losses"].append(sp["sp"])
            else:
                event["lay_events"].append([br["kind"], sp["sp"], br["gene"]])
                if br["kind"] == "T":
                    event["lay_arrows"].append([br["gene"], br["right"], m[br["right"] - 1] if br["right"] > 0 else 0])
    parsed = rc.parse_tikz(text)
    events, losses, arrows, problems = rc.locate_tikz(A, lay, parsed, onodes, snodes, params)
    # an arrow ends at a point; when several anchors share it, the arrow is read as ending at the
    # transferred child of its source if that child is among them
    resolved = []
    for src, cands in arrows:
        want = [a for a in event["lay_arrows"] if a[0] == src]
        pick = next((c for c in cands if want and c[0] == want[0][1]), cands[0])
        resolved.append([src, pick[0], pick[1]])
    event["tikz_events"], event["tikz_losses"], event["tikz_arrows"] = events, losses, resolved
    event["problems"] = problems[:3]
    if len(stub.calls) != 1:
        event["problems"].append(f"the measurer was called {len(stub.calls)} times")
    return event


def _worker(chunk):
    A = rc.api()
    out = []
    for inp, m, fam, orient, seed, lab in chunk:
        out.append(drawing_event(A, inp, m, fam, orient, seed, lab, random.Random(seed) if seed % 3 == 0 else None))
    return out


def run_jobs(jobs, njobs=16):
    size = max(1, len(jobs) // (njobs * 6))
    chunks = [jobs[i:i + size] for i in range(0, len(jobs), size)]
    with multiprocessing.get_context("fork").Pool(njobs) as pool:
        out = []
        for part in pool.imap(_worker, chunks):
            out.extend(part)
    return out


def labels_for(rng, inp, m, fam):
    """A valid labelling for a mapping: every ancestor holds every family of the
    leaves below it (plus, ordered, in the reference order)."""
    ot = inp["ot"]
    cl = proj.clades(ot)
    lab = []
    for u in range(1, len(ot) + 1):
        fams = sorted({f for w in cl[u - 1] for f in inp["syn"][w - 1]})
        lab.append(list(inp["syn"][u - 1]) if u in proj.leaves_of(ot) else fams)
    return lab


def measure_events(rng, n):
    """tex.measure with a canned TeX engine: the compiler is replaced by a stub
    that answers every \\savebox of the source with one `$$$w,h,d` line (among
    other log lines); the boxes must come back one per text, in order."""
    import re
    A = rc.api()
    from superrec2.utils import tex
    original = tex.tex_compile
    out = []
    try:
        for _ in range(n):
            k = rng.randint(0, 12)
            texts = ["".join(rng.choice("ab_\\{} $") for _ in range(rng.randint(0, 6))) for _ in range(k)]
            sent = [[rng.randint(0, 999), rng.randint(0, 999), rng.randint(0, 99)] for _ in range(k)]

            def fake_compile(source, dest=None, sent=sent):
                boxes = len(re.findall(r"\\savebox\{\\measurebox\}", source))
                lines = ["This is a canned TeX engine", "(./input.tex", "LaTeX2e"]
                for i in range(boxes):
                    w, h, d = sent[i] if i < len(sent) else (0, 0, 0)
                    lines.append(f"$$${w / 10}pt,{h / 10}pt,{d / 10}pt")
                    if rng.random() < 0.3:
                        lines.append("Overfull \\hbox (badness 10000) $$ not a measure line")
                lines.append(")")
                return "\n".join(lines)

            tex.tex_compile = fake_compile
            got = mc.safe(tex.measure, texts)
            if isinstance(got, mc.Raised):
                out.append({"op": "measure", "texts": k, "sent": sent, "got": [[-1, -1, -1]], "exc": got.text})
            else:
                out.append({"op": "measure", "texts": k, "sent": sent,
                            "got": [[round(b.width * 10), round(b.height * 10), round(b.depth * 10)] for b in got]})
    finally:
        tex.tex_compile = original
    return out


def run(ctx):
    thorough = ctx.tier == "thorough"
    rng = random.Random(ctx.seed * 9103 + 13)
    ctx.rule = ("E2: every valid reconciliation of every input with object <= 3 leaves / species <= 3 leaves and a seeded "
                "sample with 4 (5) leaves, each drawn in both orientations with seeded sizes 1-100, a share with synteny "
                "labels and perturbed drawing parameters; E3: random reconciliations up to 10 leaves. Non-trivial = at "
                "least one loss or transfer drawn; distinct = distinct (input, mapping, orientation).")
    ctx.assumptions += ["node sizes come from a stub measurer consumed in call order (no TeX engine in the sandbox)",
                        "drawn statements are located by their coordinates (4 decimal places, as written)"]
    costs = [gen.cost(0, 1, 1, 1, 1)]
    inputs = list(gen.dtl_inputs(gen.bin_shapes_upto(3), gen.bin_shapes_upto(3), costs))
    four = list(gen.dtl_inputs(gen.bin_shapes(4), gen.bin_shapes_upto(4 if thorough else 3), costs))
    inputs += rng.sample(four, 600 if thorough else 90)
    if thorough:
        inputs += rng.sample(list(gen.dtl_inputs(gen.bin_shapes(5), gen.bin_shapes(3) + gen.bin_shapes(5)[:4], costs)), 250)
    inputs = list(dict.fromkeys(inputs))

    # ---- E1 ------------------------------------------------------------------
    from lib import tlc, tlaval
    import os
    import shutil
    wdir = tlc.make_workdir("verif-c13-")
    try:
        path = gen.write_mc(wdir, "DrawingMC", inputs)
        cfg = os.path.join(wdir, "d.cfg")
        tlc.write_cfg(cfg, spec="Spec", constants={"Inputs": "<- MCInputs", "SpShapes": "<- MCSp"}, invariants=["DrawCostInv"])
        res = tlc.run(path, cfg, workdir=wdir)
        ctx.add_tlc("DrawingMC: abstract drawing adds up to the cost (every valid reconciliation)", res)
        if not res.ok:
            ctx.violation("specification: DrawCostInv violated", {"engine": "E1", "trace": tlc.counterexample(res)[:4000]})
    finally:
        shutil.rmtree(wdir, ignore_errors=True)
    expect = dc.tlc_generate(ctx, inputs, "THL SpecGen (all valid reconciliations)", invariants=())
    ctx.stage("E1 / generation")

    # ---- E2 ------------------------------------------------------------------
    jobs = []
    for inp in inputs:
        exp = expect.get(inp)
        if exp is None:
            continue
        valid = sorted(tuple(p[0]) for p in exp["ranked"] if p[1] < proj.INF)
        if len(valid) > 40 and not thorough:
            valid = rng.sample(valid, 40)
        for m in valid:
            seed = rng.randrange(10 ** 6)
            fam, lab, sinp = "dtl", None, inp
            if seed % 4 == 0 and len(inp["ot"]) > 1:
                fam = rng.choice(["ord", "un"])
                syn, _ = sc.random_syn(rng, fam, inp["ot"], 3, 0.0)
                sinp = sc.sinput(inp["ot"], inp["st"], inp["lm"], inp["c"], [sorted(s) for s in syn])
                lab = labels_for(rng, sinp, m, fam)
            for orient in ("V", "H"):
                jobs.append((sinp, m, fam, orient, seed, lab))
    results = run_jobs(jobs)
    ctx.stage("E2 render")
    # ---- E3 ------------------------------------------------------------------
    big = []
    A = proj.api()
    from superrec2.compute.reconciliation import reconcile_thl
    for _ in range(160 if thorough else 24):
        inp = dc.random_input(rng, 10 if thorough else 8, 6, costs=[gen.cost(0, 1, 1, 1, 1), gen.cost(0, 1, 0, 0, 1),
                                                                      gen.cost(1, 0, 2, 1, 1)], min_obj=5)
        built = proj.build_input(A, inp)
        res = mc.safe(lambda: list(reconcile_thl(built.input, A.dp.RetentionPolicy.ALL)))
        if isinstance(res, mc.Raised):
            continue
        for out in res[:4]:
            m = proj.mapping_of(built, out)
            for orient in ("V", "H"):
                big.append((inp, m, "dtl", orient, rng.randrange(10 ** 6), None))
    results += run_jobs(big)
    ctx.stage("E3 render")
    results += measure_events(rng, 200 if thorough else 40)
    for event in results:
        if event["op"] == "measure":
            continue
        if event["lay_losses"] or event["lay_arrows"]:
            ctx.nontrivial.add((tuple(event["in"]["ot"]), tuple(event["in"]["st"]), tuple(event["in"]["lm"]),
                                tuple(event["m"]), event["orient"]))
    ctx.sample({"engine": "E2-trace", "event": results[len(results) // 2]})
    mc.validate_sessions(ctx, "TraceDrawing", [[e] for e in results], relevant=CLAUSES, count_traces=len(results),
                         describe=lambda e, cl: f"tex.measure on canned engine output violates {cl}: {e}" if e["op"] == "measure" else f"drawing ({e['orient']}) of mapping {e['m']} on {e['in']} violates {cl}: "
                                                f"exc {e['exc']!r} layout events {e['lay_events']} losses {e['lay_losses']} "
                                                f"arrows {e['lay_arrows']} / drawn {e['tikz_events']} {e['tikz_losses']} "
                                                f"{e['tikz_arrows']} {e['problems']}")
    lit = [{"op": "drawing", "in": {"ot": [0, 1, 1], "st": [0, 1, 1], "lm": [0, 2, 3]}, "m": [1, 2, 3], "orient": "V",
            "lay_events": [["S", 1, 1], ["L", 2, 2], ["L", 3, 3]], "lay_losses": [], "lay_arrows": [],
            "tikz_events": [["S", 1, 1], ["L", 2, 2], ["L", 3, 3]], "tikz_losses": [], "tikz_arrows": [], "problems": [],
            "exc": ""}]
    mc.trace_selftest(ctx, "TraceDrawing", lit, lambda s: [dict(s[0], tikz_events=[["D", 1, 1], ["L", 2, 2], ["L", 3, 3]])],
                      what="a speciation drawn as a duplication")
    ctx.stage("trace validation")


def replay(path):
    import json
    from lib.harness import Context
    A = rc.api()
    with open(path, encoding="utf-8") as handle:
        case = json.load(handle)["case"]
    e = case.get("event", case)
    if e.get("op") != "drawing":
        return 2
    ctx = Context("C13", "quick", 0)
    ctx.known = []
    inp = sc.sinput(e["in"]["ot"], e["in"]["st"], e["in"]["lm"], e["c"], e.get("syn") or [[] for _ in e["in"]["ot"]])
    lab = e.get("lab") if e.get("fam", "dtl") != "dtl" else None
    new = drawing_event(A, inp, e["m"], e.get("fam", "dtl"), e["orient"], e.get("seed", 0), lab,
                        random.Random(e.get("seed", 0)) if e.get("seed", 0) % 3 == 0 else None)
    print("observed:", {k: new[k] for k in ("exc", "lay_events", "lay_losses", "lay_arrows", "tikz_events", "tikz_losses",
                                            "tikz_arrows", "problems")})
    bad = mc.validate_sessions(ctx, "TraceDrawing", [[new]], relevant=CLAUSES)
    return 1 if bad else 0
