"""C06 - the cost evaluator implements the documented event model.

E1/E2: THL!SpecEval enumerates, for every input of the bound, *every* total
    species mapping (valid or not) with the event of each node and the cost by
    the declarative event model (loss sites), invariant EvalInv; Ordered /
    Unordered!SpecEval enumerate every valid mapping x root order x labelling
    with reconciliation and labelling costs (lost runs / charged edges).  Every
    case is rebuilt as a ReconciliationOutput / SuperReconciliationOutput (no
    solver involved) and node_event, reconciliation_cost, labeling_cost, cost
    are compared.  Cost vectors are arbitrary (no coherence restriction).
E3: larger random solutions (solver outputs re-priced under random cost vectors,
    random mappings) recorded as `eval` events and judged by TraceOrdered /
    TraceUnordered / TraceDTL-style recount clauses.
"""
import itertools
import random

from lib import gen, mc, proj, tlc, tlaval
from lib.proj import INF
from . import dtl_common as dc
from . import super_common as sc

EVENT_NAMES = {"LEAF": "L", "SPECIATION": "S", "DUPLICATION": "D", "INVALID": "X"}


def event_code(A, out, node):
    ev = out.node_event(node)
    if ev.name == "HORIZONTAL_TRANSFER":
        left = node.children[0]
        lca = out.input.species_lca
        return "TL" if lca.is_ancestor_of(out.object_species[node], out.object_species[left]) else "TR"
    return EVENT_NAMES[ev.name]


def eval_costs(rng, n):
    base = [gen.cost(0, 1, 1, 1, 1), gen.cost(1, 1, 1, 1, 1), gen.cost(3, 0, 2, 1, 2), gen.cost(2, 1, 0, 3, 0),
            gen.cost(0, 0, 0, 0, 1), gen.cost(1, 2, 3, 0, 1), gen.cost(3, 3, INF, 2, 3), gen.cost(0, 2, 1, 1, 0)]
    while len(base) < n:
        base.append(gen.cost(rng.randint(0, 3), rng.randint(0, 3), rng.choice([0, 1, 2, 3, INF]),
                             rng.randint(0, 3), rng.randint(0, 3)))
    return base[:n]


def run(ctx):
    A = proj.api()
    thorough = ctx.tier == "thorough"
    rng = random.Random(ctx.seed * 9043 + 6)
    ctx.rule = ("E2: every total species mapping of every input (object <= 4 leaves, species <= 3-4 leaves, every leaf "
                "assignment) and every valid labelled solution of tiny labelled inputs, under 8 (40) arbitrary cost "
                "vectors; E3: solver outputs on random inputs up to 8 object leaves re-priced under random cost vectors. "
                "Non-trivial = internal node present and at least one loss or non-speciation event; distinct = distinct "
                "(input, solution) pairs.")
    ctx.assumptions += ["event model as documented: one full loss per skipped species edge on a vertical branch; segmental "
                        "losses per lost run (ordered) / charged edge (unordered)"]
    costs = eval_costs(rng, 40 if thorough else 8)

    # ---- plain mappings: every total mapping ------------------------------------------
    inputs = []
    for ot, st in itertools.product(gen.bin_shapes_upto(3), gen.bin_shapes_upto(4)):
        for lm in gen.leaf_maps(ot, st):
            inputs.append(proj.inp_record(ot, st, lm, rng.choice(costs)))
    four = list(gen.dtl_inputs(gen.bin_shapes(4), gen.bin_shapes_upto(4 if thorough else 3), costs[:1]))
    for inp in rng.sample(four, 1200 if thorough else 250):
        inputs.append(proj.inp_record(inp["ot"], inp["st"], inp["lm"], rng.choice(costs)))
    if thorough:
        five = list(gen.dtl_inputs(gen.bin_shapes(5), [gen.caterpillar(5), gen.balanced(5)] + list(gen.bin_shapes(3)), costs[:1]))
        for inp in rng.sample(five, 400):
            inputs.append(proj.inp_record(inp["ot"], inp["st"], inp["lm"], rng.choice(costs)))
    else:
        for _ in range(60):   # deep species trees: long vertical branches
            st = rng.choice([gen.caterpillar(5), gen.balanced(5), gen.caterpillar(6)])
            ot = gen.random_bin_shape(rng, rng.randint(2, 3))
            inputs.append(proj.inp_record(ot, st, gen.random_leaf_map(rng, ot, st), rng.choice(costs)))
    inputs = list(dict.fromkeys(inputs))
    wdir = tlc.make_workdir("verif-c06-")
    import os
    import shutil
    try:
        path = gen.write_mc(wdir, "THL", inputs)
        cfg = os.path.join(wdir, "eval.cfg")
        tlc.write_cfg(cfg, spec="SpecEval", constants=dc.THL_CONSTS, invariants=["EvalInv"])
        res = tlc.run(path, cfg, dump=True, workdir=wdir)
        ctx.add_tlc("THL SpecEval (every total mapping: events and cost)", res)
        if not res.ok:
            ctx.violation("specification: EvalInv violated", {"engine": "E1", "trace": tlc.counterexample(res)[:4000]})
        states = [s for s in tlaval.read_dump(res.dump) if s["pc"] == "done"]
    finally:
        shutil.rmtree(wdir, ignore_errors=True)
    ctx.stage("E1/E2 generate mappings")
    n = 0
    for state in states:
        inp = state["input"]
        built = proj.build_input(A, inp, naming="unnamed" if n % 2 else "unique")
        for rec in state["expect"]:
            n += 1
            m = rec["m"]
            out = proj.make_output(A, built, m)
            case = {"engine": "E2", "op": "eval", "input": proj.inp_to_json(inp), "m": list(m)}
            got_ev = mc.safe(lambda: [event_code(A, out, node) for node in built.onodes])
            got_cost = mc.safe(lambda: proj.cost_from_impl(A, out.cost()))
            if isinstance(got_ev, mc.Raised) or isinstance(got_cost, mc.Raised):
                ctx.violation(f"evaluator fails on mapping {list(m)} of {case['input']}: {got_ev!r} {got_cost!r}", case)
                continue
            if tuple(got_ev) != tuple(rec["ev"]):
                ctx.violation(f"node_event gives {got_ev} for mapping {list(m)} of {case['input']}, "
                              f"event model: {list(rec['ev'])}", dict(case, observed=got_ev, expected=list(rec["ev"])))
            if got_cost != rec["cost"]:
                ctx.violation(f"cost() = {got_cost} for mapping {list(m)} of {case['input']}, recount {rec['cost']}",
                              dict(case, observed=got_cost, expected=rec["cost"]))
            if rec["cost"] < INF and any(e in ("D", "TL", "TR") for e in rec["ev"]):
                ctx.nontrivial.add((inp, m))
            if n % 30000 == 11:
                ctx.sample({"input": case["input"], "m": list(m), "events": list(rec["ev"]), "cost": rec["cost"]})
    ctx.evaluations += n
    ctx.traces += n
    ctx.stage("E2 mappings")

    # ---- labelled solutions -----------------------------------------------------------------
    for fam, leaf_syns, nf in (("ord", [(1,), (2,), (1, 2), (2, 1)], 2), ("un", [(1,), (2,), (1, 2)], 2)):
        tiny = list(sc.small_inputs(fam, gen.bin_shapes_upto(3), gen.bin_shapes_upto(2), leaf_syns, costs[:1]))
        tiny = [sc.sinput(i["ot"], i["st"], i["lm"], rng.choice(costs), i["syn"]) for i in tiny]
        extra = []
        for _ in range(500 if thorough else 90):
            i = sc.random_sinput(rng, fam, 4 if thorough else 3, 3, 3, costs=costs, min_obj=3, p_root=0.0)
            extra.append(i)
        sel = list(dict.fromkeys(tiny[::(1 if thorough else 2)] + extra))
        _, states = sc._run(ctx, fam, sel, "SpecEval", sc.consts_for(fam, False, False), [],
                            f"{sc.FAMS[fam][0]} SpecEval (every valid labelled solution: costs)", dump=True)
        k = 0
        for state in states:
            if state["pc"] != "done":
                continue
            inp = state["input"]
            built = proj.build_input(A, inp, syn=inp["syn"], unordered=(fam == "un"))
            for rec in state["expect"]:
                k += 1
                sol = rec["sol"]
                mapping = {built.onodes[u - 1]: built.snodes[sol["m"][u - 1] - 1] for u in range(1, len(inp["ot"]) + 1)}
                syn = {built.onodes[u - 1]: [f"f{f}" for f in sol["lab"][u - 1]] for u in range(1, len(inp["ot"]) + 1)}
                out = A.model.SuperReconciliationOutput(built.input, mapping, syn, fam == "ord")
                got = mc.safe(lambda: (proj.cost_from_impl(A, out.reconciliation_cost()),
                                       proj.cost_from_impl(A, out.labeling_cost()), proj.cost_from_impl(A, out.cost())))
                case = {"engine": "E2", "op": "eval", "fam": fam, "in": sc.sinput_json(inp),
                        "sol": {"m": list(sol["m"]), "lab": [list(x) for x in sol["lab"]]}}
                want = (rec["rcost"], rec["lcost"], min(INF, rec["rcost"] + rec["lcost"]))
                if isinstance(got, mc.Raised):
                    ctx.violation(f"evaluator fails on {case}: {got.text}", case)
                elif got != want:
                    ctx.violation(f"(reconciliation, labelling, total) cost = {got} for solution {case['sol']} of "
                                  f"{case['in']}, recount {want}", dict(case, observed=list(got), expected=list(want)))
                if rec["lcost"] > 0:
                    ctx.nontrivial.add((fam, inp, sol))
                if k % 20000 == 7:
                    ctx.sample({"fam": fam, "in": case["in"], "sol": case["sol"], "rcost": rec["rcost"], "lcost": rec["lcost"]})
        ctx.evaluations += k
        ctx.traces += k
    ctx.stage("E2 labelled")

    # ---- E3: larger solutions re-priced, judged by the trace specifications --------------------
    results = []
    for fam in ("ord", "un"):
        for _ in range(300 if thorough else 45):
            inp = sc.random_sinput(rng, fam, 7 if fam == "un" else 5, 4, 4 if fam == "un" else 3,
                                   costs=sc.SUPER_COSTS[:5], min_obj=4, p_root=0.0)
            built = proj.build_input(A, inp, syn=inp["syn"], unordered=(fam == "un"))
            res = mc.safe(lambda: sc._quiet(lambda: list(sc.solver(A, fam, "ext")(built.input, A.dp.RetentionPolicy.ALL))))
            if isinstance(res, mc.Raised):
                continue
            events = []
            for out in res[:6]:
                newc = rng.choice(costs)
                inp2 = sc.sinput(inp["ot"], inp["st"], inp["lm"], newc, inp["syn"])
                built2 = proj.build_input(A, inp2, syn=inp2["syn"], unordered=(fam == "un"))
                sol = sc.project_solution(A, out)
                mapping = {built2.onodes[u]: built2.snodes[sol["m"][u] - 1] for u in range(len(sol["m"]))}
                syn = {built2.onodes[u]: [f"f{f}" for f in sol["lab"][u]] for u in range(len(sol["m"]))}
                out2 = A.model.SuperReconciliationOutput(built2.input, mapping, syn, fam == "ord")
                got = mc.safe(lambda: ([event_code(A, out2, node) for node in built2.onodes],
                                       proj.cost_from_impl(A, out2.cost()),
                                       proj.cost_from_impl(A, out2.reconciliation_cost()),
                                       proj.cost_from_impl(A, out2.labeling_cost())))
                if isinstance(got, mc.Raised):
                    ctx.violation(f"evaluator fails on a re-priced solver output of {sc.sinput_json(inp2)}: {got.text}",
                                  {"engine": "E3", "op": "eval", "fam": fam, "in": sc.sinput_json(inp2)})
                    continue
                events.append({"op": "eval", "fam": fam, "algo": "-", "policy": "-", "in": sc.sinput_json(inp2), "exc": "",
                               "sol": {"m": sol["m"], "lab": sol["lab"]}, "events": got[0], "cost": got[1],
                               "rcost": got[2], "lcost": got[3], "sols": [], "costs": []})
                ctx.nontrivial.add((fam, inp2, tuple(sol["m"])))
            if events:
                results.append((fam, inp, events))
    if results:
        ctx.sample({"engine": "E3-trace", "event": results[0][2][0]})
    sc.validate(ctx, results, {"ClauseNodeEvent", "ClauseReconciliationCost", "ClauseLabelingCost", "ClauseTotalCost"})
    ctx.stage("E3")


def replay(path):
    import json
    from lib.harness import Context
    A = proj.api()
    with open(path, encoding="utf-8") as handle:
        case = json.load(handle)["case"]
    case = case.get("event", case)
    ctx = Context("C06", "quick", 0)
    ctx.known = []
    if "fam" in case:
        inp = sc.sinput_from_json(case["in"])
        fam = case["fam"]
        built = proj.build_input(A, inp, syn=inp["syn"], unordered=(fam == "un"))
        sol = case["sol"]
        mapping = {built.onodes[u]: built.snodes[sol["m"][u] - 1] for u in range(len(sol["m"]))}
        syn = {built.onodes[u]: [f"f{f}" for f in sol["lab"][u]] for u in range(len(sol["m"]))}
        out = A.model.SuperReconciliationOutput(built.input, mapping, syn, fam == "ord")
        got = ([event_code(A, out, node) for node in built.onodes], proj.cost_from_impl(A, out.cost()),
               proj.cost_from_impl(A, out.reconciliation_cost()), proj.cost_from_impl(A, out.labeling_cost()))
        event = {"op": "eval", "fam": fam, "algo": "-", "policy": "-", "in": case["in"], "exc": "", "sol": sol,
                 "events": got[0], "cost": got[1], "rcost": got[2], "lcost": got[3], "sols": [], "costs": []}
        print("observed:", event)
        sc.validate(ctx, [(fam, inp, [event])], {"ClauseNodeEvent", "ClauseReconciliationCost", "ClauseLabelingCost",
                                                 "ClauseTotalCost"}, jobs=1)
        return 1 if ctx.violations else 0
    w = case["input"]
    inp = proj.inp_record(w["ot"], w["st"], w["lm"], w["c"])
    built = proj.build_input(A, inp)
    out = proj.make_output(A, built, case["m"])
    syn = tuple(() for _ in inp["ot"])
    got = ([event_code(A, out, node) for node in built.onodes], proj.cost_from_impl(A, out.cost()))
    print("observed events", got[0], "cost", got[1])
    # judged by the unordered trace spec with empty syntenies: events and reconciliation cost
    sinp = sc.sinput(inp["ot"], inp["st"], inp["lm"], inp["c"], [(1,) if u in proj.leaves_of(inp["ot"]) else () for u in range(1, len(inp["ot"]) + 1)])
    event = {"op": "eval", "fam": "un", "algo": "-", "policy": "-", "in": sc.sinput_json(sinp), "exc": "",
             "sol": {"m": list(case["m"]), "lab": [[1]] * len(inp["ot"])}, "events": got[0], "cost": got[1],
             "rcost": got[1], "lcost": 0, "sols": [], "costs": []}
    sc.validate(ctx, [("un", sinp, [event])], {"ClauseNodeEvent", "ClauseReconciliationCost"}, jobs=1)
    return 1 if ctx.violations else 0
