"""C20 - triple decomposition, supertree construction and disjoint sets are exact.

E1: Triples!SpecBreak (BreakUp as a state machine with every choice of cherry,
    dropped leaf and sister leaf; BreakInv, RebuildInv, UniqueInv) for every
    binary tree of the bound; Triples!SpecSets (BUILD succeeds iff a displaying
    binary tree exists and its result displays the triples; AllTrees = exactly
    the displaying trees, each once) for every triple set on 4 leaves;
    DisjointSet.tla (union by rank + path compression refines the partition;
    PartitionInv, CountInv, ForestInv, RankInv, RetInv, BinaryInv under every
    iteration order of the representatives) - full state graph on N elements.
E2: TriplesGen / DisjointSetGen dumps replayed through tree_to_triples,
    tree_from_triples, all_trees_from_triples, supertree, all_supertrees and
    DisjointSet (every history of unite / find up to the bound).
E3: random triple sets on 5-6 leaves, random tree collections for the
    supertree routines, random longer union histories; TraceTriples.tla.
"""
import itertools
import random

from lib import mc, proj, tlaval
from lib.tlaval import to_tla


def _api():
    A = proj.api()
    from superrec2.utils.disjoint_set import DisjointSet
    A.DisjointSet = DisjointSet
    return A


NAMES = "abcdefghij"


def name_of(x, scheme):
    return NAMES[x - 1] if scheme == 0 else f"L{11 - x}" if scheme == 1 else f"n{x}_{x % 3}"


def tree_from_clades(A, clades, rng=None, scheme=0):
    """ete3 tree whose clades are `clades` (set of frozensets incl. root and singletons)."""
    root = max(clades, key=len)

    def build(clade):
        node = A.Tree()
        if len(clade) == 1:
            node.name = name_of(next(iter(clade)), scheme)
            return node
        kids = [c for c in clades if c < clade and not any(c < d < clade for d in clades)]
        kids.sort(key=lambda c: sorted(c))
        if rng is not None:
            rng.shuffle(kids)
        for kid in kids:
            node.add_child(build(kid))
        return node

    return build(root)


def clades_of(tree, back):
    """Clade set of an ete3 tree, leaves translated by `back` (name -> id)."""
    out = set()
    for node in tree.traverse():
        out.add(frozenset(back[leaf.name] for leaf in node.get_leaves()))
    return frozenset(out)


from lib.proj import malformed  # noqa: E402


def ptrees(trees, back):
    """Projection of a list of returned trees; objects that are not proper
    trees project to a marker no specification value equals."""
    if malformed(trees):
        return [[[-98]]]
    return [jtree(clades_of(t, back)) for t in trees]


def jtree(clades):
    return sorted(sorted(c) for c in clades)


def displays(clades, tr):
    return any(tr[0] in c and tr[1] in c and tr[2] not in c for c in clades)


def run(ctx):
    A = _api()
    thorough = ctx.tier == "thorough"
    rng = random.Random(ctx.seed * 7001 + 20)
    nds = 6 if thorough else 5
    ctx.rule = ("E1/E2: every binary tree on <= 5 (6) leaves, every subset of the 12 triples on 4 leaves, every "
                "unite/find history up to the bound on 5 elements; E3: random triple sets on 5-6 leaves, random tree "
                "collections, random histories on up to 9 elements. Non-trivial = tree with >= 3 leaves / non-empty "
                "triple set / history with >= 2 operations; distinct = distinct inputs.")
    ctx.assumptions += ["triples only mention leaves of the given leaf list; input trees are binary and leaf-labelled "
                        "with distinct names (documented domain)"]
    tconst = {"MaxLeaves": "6" if thorough else "5", "SetLeaves": "{1, 2, 3, 4}", "DropBoth": "FALSE"}

    # ---- E1 ------------------------------------------------------------------
    mc.explore(ctx, "Triples", f"BreakUp machine, binary trees <= {tconst['MaxLeaves']} leaves", spec="SpecBreak",
               constants=tconst, invariants=["BreakInv", "RebuildInv", "UniqueInv"])
    mc.explore(ctx, "Triples", "BUILD / AllTrees on every triple set over 4 leaves", spec="SpecSets",
               constants=tconst, invariants=["BuildIffInv", "AllTreesInv"])
    mc.explore(ctx, "DisjointSet", f"DisjointSet machine, {nds} elements (full state graph)",
               constants={"N": str(nds), "NoCountBug": "FALSE"},
               invariants=["PartitionInv", "CountInv", "ForestInv", "RankInv", "BinaryInv"], properties=["RetInv"])
    ctx.stage("E1")
    mc.refuted(ctx, "DisjointSet", "NoCountBug=TRUE", constants={"N": "4", "NoCountBug": "TRUE"}, invariants=["CountInv"])
    mc.refuted(ctx, "Triples", "DropBoth=TRUE", spec="SpecBreak",
               constants=dict(tconst, MaxLeaves="5", DropBoth="TRUE"), invariants=["RebuildInv"])

    events = []   # judged by TLC through TraceTriples

    # ---- E2: trees -> triples -> tree -----------------------------------------
    gconst = {"MaxLeaves": tconst["MaxLeaves"], "SetLeaves": "{1, 2, 3, 4}"}
    _, states = mc.explore(ctx, "TriplesGen", "TriplesGen trees", spec="SpecTrees", constants=gconst, dump=True)
    n = 0
    for state in states:
        clades = state["key"]
        leaves = sorted(max(clades, key=len))
        if len(leaves) >= 3:
            ctx.nontrivial.add(("tree", clades))
        for scheme in (0, 1, 2):
            tree = tree_from_clades(A, clades, rng if scheme else None, scheme)
            back = {name_of(x, scheme): x for x in leaves}
            res = mc.safe(A.trees.tree_to_triples, tree)
            n += 1
            case = {"engine": "E2", "op": "breakup", "tree": jtree(clades), "scheme": scheme}
            if isinstance(res, mc.Raised):
                ctx.violation(f"tree_to_triples fails on {jtree(clades)}: {res.text}", case)
                continue
            lv, triples = res
            if clades_of(tree, back) != clades:
                ctx.violation(f"tree_to_triples modified its argument {jtree(clades)}", case)
            ids = [[back.get(x, -1) for x in tr] for tr in triples]
            events.append({"op": "breakup", "tree": jtree(clades), "leaves": [back.get(x, -1) for x in lv],
                           "triples": ids})
            rebuilt = mc.safe(A.trees.tree_from_triples, list(lv), list(triples))
            if isinstance(rebuilt, mc.Raised) or rebuilt is None or clades_of(rebuilt, back) != clades:
                got = rebuilt if isinstance(rebuilt, mc.Raised) or rebuilt is None else jtree(clades_of(rebuilt, back))
                ctx.violation(f"rebuilding {jtree(clades)} from its triples {ids} gives {got!r}",
                              dict(case, triples=ids, observed=repr(got)))
            allt = mc.safe(A.trees.all_trees_from_triples, list(lv), list(triples))
            if isinstance(allt, mc.Raised) or [clades_of(t, back) for t in allt] != [clades]:
                ctx.violation(f"all_trees_from_triples on the triples of {jtree(clades)} does not return exactly that tree",
                              dict(case, triples=ids, observed=repr(allt)[:300]))
        if n % 100 == 0:
            ctx.sample({"op": "breakup", "tree": jtree(clades), "triples": ids})
    ctx.evaluations += n
    ctx.traces += n
    ctx.stage("E2 trees")

    # ---- E2: triple sets on 4 leaves --------------------------------------------
    _, states = mc.explore(ctx, "TriplesGen", "TriplesGen triple sets", spec="SpecSets", constants=gconst, dump=True)
    m = 0
    for state in states:
        if state["val"][0] != "trees":
            continue
        triples, want = sorted(state["key"]), state["val"][1]
        m += 1
        scheme = m % 3
        back = {name_of(x, scheme): x for x in (1, 2, 3, 4)}
        lv = [name_of(x, scheme) for x in (1, 2, 3, 4)]
        if m % 2:
            lv.reverse()
        named = [tuple(name_of(x, scheme) for x in tr) for tr in triples]
        if m % 5 == 0:
            rng.shuffle(named)
        if triples:
            ctx.nontrivial.add(("set", state["key"]))
        case = {"engine": "E2", "op": "alltrees", "leaves": [1, 2, 3, 4], "triples": [list(t) for t in triples]}
        one = mc.safe(A.trees.tree_from_triples, list(lv), list(named))
        allt = mc.safe(A.trees.all_trees_from_triples, list(lv), list(named))
        if isinstance(one, mc.Raised):
            ctx.violation(f"tree_from_triples fails on {case['triples']}: {one.text}", dict(case, op="build"))
        elif (one is None) != (not want):
            ctx.violation(f"tree_from_triples returns {'None' if one is None else 'a tree'} on {case['triples']} "
                          f"although {len(want)} binary trees display them", dict(case, op="build"))
        elif one is not None:
            got = clades_of(one, back)
            missing = [list(tr) for tr in triples if not displays(got, tr)]
            events.append({"op": "build", "leaves": [1, 2, 3, 4], "triples": case["triples"], "ok": True,
                           "tree": jtree(got)})
            if missing:
                ctx.violation(f"tree_from_triples({case['triples']}) = {jtree(got)} does not display {missing}",
                              dict(case, op="build", observed=jtree(got)))
        if isinstance(allt, mc.Raised):
            ctx.violation(f"all_trees_from_triples fails on {case['triples']}: {allt.text}", case)
        else:
            got = sorted(jtree(clades_of(t, back)) for t in allt)
            bad = malformed(allt)
            if bad:
                ctx.violation(f"all_trees_from_triples({case['triples']}) does not return proper trees: {bad}",
                              dict(case, observed=bad))
            if got != sorted(jtree(t) for t in want):
                ctx.violation(f"all_trees_from_triples({case['triples']}) returns {len(got)} trees "
                              f"({len(got) - len(set(map(str, got)))} repeated), {len(want)} binary trees display the triples",
                              dict(case, observed=got[:20], expected=sorted(jtree(t) for t in want)[:20]))
        if m % 1000 == 3:
            ctx.sample({"op": "alltrees", "triples": case["triples"], "n_trees": len(want)})
    ctx.evaluations += m
    ctx.traces += m
    ctx.stage("E2 sets")

    # ---- E2: disjoint-set histories ----------------------------------------------
    hconst = {"N": "5", "MaxHist": "4" if thorough else "3", "OrderedPairs": "FALSE" if thorough else "TRUE"}
    _, states = mc.explore(ctx, "DisjointSetGen", f"DisjointSetGen histories <= {hconst['MaxHist']}",
                           constants=hconst, invariants=["HistInv"], dump=True)
    k = 0
    for state in states:
        hist, part, last = state["hist"], state["part"], state["last"]
        k += 1
        if len(hist) >= 2:
            ctx.nontrivial.add(("dsu", hist))
        got = replay_dsu(A, 5, hist)
        case = {"engine": "E2", "op": "dsu", "size": 5, "ops": [list(op) for op in hist]}
        if isinstance(got, mc.Raised):
            ctx.violation(f"DisjointSet fails on history {case['ops']}: {got.text}", case)
            continue
        want_bin = two_block(part)
        problems = []
        if got["blocks"] != part or got["nblocks"] != len(part):
            problems.append(f"to_list() gives {sorted(map(sorted, got['blocks']))}, unions generate {sorted(map(sorted, part))}")
        if got["len"] != len(part):
            problems.append(f"len() = {got['len']}, {len(part)} blocks")
        if hist and got["rets"][-1] != last:
            problems.append(f"last operation returned {got['rets'][-1]}, expected {last}")
        if sorted(got["binary"], key=str) != sorted(want_bin, key=str):
            problems.append(f"binary() yields {len(got['binary'])} partitions, {len(want_bin)} two-block coarsenings exist")
        if got["same"] != {(a, b) for blk in part for a in blk for b in blk}:
            problems.append("find() does not identify exactly the elements of one block")
        if problems:
            ctx.violation(f"DisjointSet after {case['ops']}: " + "; ".join(problems), dict(case, observed=str(got)[:400]))
        if k % 9000 == 5:
            ctx.sample({"op": "dsu", "ops": case["ops"], "partition": sorted(map(sorted, part))})
    ctx.evaluations += k
    ctx.traces += k
    ctx.stage("E2 dsu")

    # ---- E3 -----------------------------------------------------------------------
    for _ in range(500 if thorough else 70):
        nl = rng.randint(5, 6)
        leaves = list(range(1, nl + 1))
        scheme = rng.randint(0, 2)
        back = {name_of(x, scheme): x for x in leaves}
        alltr = [(a, b, c) for a, b in itertools.combinations(leaves, 2) for c in leaves if c not in (a, b)]
        if rng.random() < 0.7:   # mostly consistent: triples of one random tree (+ noise)
            base = random_binary_clades(rng, leaves)
            pool = [t for t in alltr if displays(base, t)]
            triples = rng.sample(pool, rng.randint(0, min(len(pool), 7)))
            if rng.random() < 0.3:
                triples.append(rng.choice(alltr))
        else:
            triples = rng.sample(alltr, rng.randint(1, 5))
        ctx.nontrivial.add(("rset", nl, tuple(sorted(triples))))
        lv = [name_of(x, scheme) for x in leaves]
        rng.shuffle(lv)
        named = [tuple(name_of(x, scheme) for x in tr) for tr in triples]
        one = mc.safe(A.trees.tree_from_triples, list(lv), list(named))
        allt = mc.safe(A.trees.all_trees_from_triples, list(lv), list(named))
        ev = {"leaves": leaves, "triples": [list(t) for t in triples]}
        if isinstance(one, mc.Raised):
            events.append(dict(ev, op="build", ok=True, tree=[[-99]]))
        else:
            events.append(dict(ev, op="build", ok=one is not None,
                               tree=[] if one is None else jtree(clades_of(one, back))))
        if isinstance(allt, mc.Raised):
            events.append(dict(ev, op="alltrees", trees=[[[-99]]]))
        else:
            events.append(dict(ev, op="alltrees", trees=ptrees(allt, back)))
    for _ in range(400 if thorough else 60):
        nl = rng.randint(4, 6)
        leaves = list(range(1, nl + 1))
        scheme = rng.randint(0, 2)
        back = {name_of(x, scheme): x for x in leaves}
        base = random_binary_clades(rng, leaves)
        inputs = []
        for _ in range(rng.randint(1, 3)):
            sub = frozenset(rng.sample(leaves, rng.randint(1, nl)))
            src = base if rng.random() < 0.8 else random_binary_clades(rng, leaves)
            inputs.append(frozenset(c & sub for c in src if c & sub))
        ctx.nontrivial.add(("super", tuple(inputs)))
        trees = [tree_from_clades(A, t, rng, scheme) for t in inputs]
        used = sorted(set().union(*[max(t, key=len) for t in inputs]))
        one = mc.safe(A.trees.supertree, [t.copy() for t in trees])
        allt = mc.safe(A.trees.all_supertrees, [t.copy() for t in trees])
        ev = {"inputs": [jtree(t) for t in inputs]}
        if isinstance(one, mc.Raised):
            events.append(dict(ev, op="supertree", ok=True, tree=[[-99]]))
        else:
            events.append(dict(ev, op="supertree", ok=one is not None,
                               tree=[] if one is None else jtree(clades_of(one, back))))
        if isinstance(allt, mc.Raised):
            events.append(dict(ev, op="allsuper", trees=[[[-99]]]))
        else:
            events.append(dict(ev, op="allsuper", trees=ptrees(allt, back)))
    for _ in range(600 if thorough else 100):
        big = rng.random() < 0.25
        size = rng.randint(10, 40) if big else rng.randint(2, 9)
        ops = []
        for _ in range(rng.randint(size, 3 * size) if big else rng.randint(1, 12)):
            if rng.random() < 0.75:
                ops.append(("u", rng.randrange(size), rng.randrange(size)))
            else:
                a = rng.randrange(size)
                ops.append(("f", a, a))
        ctx.nontrivial.add(("rdsu", size, tuple(ops)))
        got = replay_dsu(A, size, ops, with_binary=size <= 7)
        if size > 7 and not isinstance(got, mc.Raised) and got["nblocks"] <= 6:
            got = replay_dsu(A, size, ops, with_binary=True)   # many elements, few blocks
        if isinstance(got, mc.Raised):
            ctx.violation(f"DisjointSet({size}) fails on {ops}: {got.text}", {"engine": "E3", "op": "dsu", "size": size,
                                                                              "ops": [list(o) for o in ops]})
            continue
        if not got["with_binary"]:
            continue
        events.append({"op": "dsu", "size": size, "ops": [list(o) for o in ops], "rets": got["rets"],
                       "blocks": sorted(sorted(b) for b in got["blocks_list"]), "len": got["len"],
                       "binary": [sorted(sorted(b) for b in pair) for pair in got["binary"]]})
    ctx.sample({"engine": "E3-trace", "events": [events[0], events[-1]]})
    mc.validate_sessions(ctx, "TraceTriples", [[e] for e in events], count_traces=len(events),
                         describe=lambda e, cl: f"recorded {e['op']} call fails {cl}: "
                                                f"{ {k: v for k, v in e.items() if k != 'n'} }"[:700])
    lit = [{"op": "build", "leaves": [1, 2, 3], "triples": [[1, 2, 3]], "ok": True, "tree": [[1], [1, 2], [1, 2, 3], [2], [3]]},
           {"op": "alltrees", "leaves": [1, 2, 3], "triples": [], "trees": [
               [[1], [1, 2], [1, 2, 3], [2], [3]], [[1], [1, 3], [1, 2, 3], [2], [3]], [[1], [2, 3], [1, 2, 3], [2], [3]]]},
           {"op": "dsu", "size": 3, "ops": [["u", 0, 1]], "rets": ["merged"], "blocks": [[0, 1], [2]], "len": 2,
            "binary": [[[0, 1], [2]]]}]
    mc.trace_selftest(ctx, "TraceTriples", lit,
                      lambda s: [dict(s[0], tree=[[1], [1, 3], [1, 2, 3], [2], [3]]), dict(s[1], trees=s[1]["trees"][:2]),
                                 dict(s[2], len=3)],
                      what="a non-displaying tree, a missing tree and a wrong block count")
    ctx.stage("E3")


def two_block(part):
    blocks = sorted(part, key=sorted)
    out = []
    if len(blocks) < 2:
        return out
    rest = blocks[1:]
    for mask in range(2 ** len(rest)):
        side = [blocks[0]] + [b for i, b in enumerate(rest) if mask >> i & 1]
        other = [b for i, b in enumerate(rest) if not mask >> i & 1]
        if other:
            out.append(frozenset([frozenset().union(*side), frozenset().union(*other)]))
    return out


def replay_dsu(A, size, ops, with_binary=True):
    def go():
        dsu = A.DisjointSet(size)
        rets = []
        for op in ops:
            if op[0] == "u":
                rets.append("merged" if dsu.unite(op[1], op[2]) else "same")
            else:
                dsu.find(op[1])
                rets.append("found")
        blocks_list = dsu.to_list()
        out = {"rets": rets, "blocks_list": blocks_list, "nblocks": len(blocks_list),
               "blocks": frozenset(frozenset(b) for b in blocks_list), "len": len(dsu),
               "same": {(a, b) for a in range(size) for b in range(size) if dsu.find(a) == dsu.find(b)}}
        out["binary"] = []
        out["with_binary"] = with_binary
        if with_binary:
            for sub in dsu.binary():
                out["binary"].append(frozenset(frozenset(b) for b in sub.to_list()))
            if frozenset(frozenset(b) for b in dsu.to_list()) != out["blocks"]:
                raise AssertionError("binary() modified the structure it was called on")
        return out
    return mc.safe(go)


def random_binary_clades(rng, leaves):
    def build(ls):
        if len(ls) == 1:
            return {frozenset(ls)}
        k = rng.randint(1, len(ls) - 1)
        ls = ls[:]
        rng.shuffle(ls)
        return {frozenset(ls)} | build(ls[:k]) | build(ls[k:])
    return frozenset(build(list(leaves)))


def replay(path):
    import json
    from lib.harness import Context
    A = _api()
    with open(path, encoding="utf-8") as handle:
        case = json.load(handle)["case"]
    if "event" in case:
        case = case["event"]
    ctx = Context("C20", "quick", 0)
    ctx.known = []
    op = case.get("op")
    events = []
    if op == "dsu":
        got = replay_dsu(A, case["size"], [tuple(o) for o in case["ops"]])
        print("observed:", got)
        if isinstance(got, mc.Raised):
            return 1
        events.append({"op": "dsu", "size": case["size"], "ops": case["ops"], "rets": got["rets"],
                       "blocks": sorted(sorted(b) for b in got["blocks_list"]), "len": got["len"],
                       "binary": [sorted(sorted(b) for b in pair) for pair in got["binary"]]})
    elif op in ("build", "alltrees"):
        leaves = case["leaves"]
        back = {name_of(x, 0): x for x in leaves}
        lv = [name_of(x, 0) for x in leaves]
        named = [tuple(name_of(x, 0) for x in tr) for tr in case["triples"]]
        one = mc.safe(A.trees.tree_from_triples, list(lv), list(named))
        allt = mc.safe(A.trees.all_trees_from_triples, list(lv), list(named))
        print("observed tree_from_triples:", one if one is None or isinstance(one, mc.Raised) else jtree(clades_of(one, back)))
        ev = {"leaves": leaves, "triples": case["triples"]}
        if isinstance(one, mc.Raised) or isinstance(allt, mc.Raised):
            return 1
        events.append(dict(ev, op="build", ok=one is not None, tree=[] if one is None else jtree(clades_of(one, back))))
        events.append(dict(ev, op="alltrees", trees=ptrees(allt, back)))
    elif op == "breakup":
        clades = frozenset(frozenset(c) for c in case["tree"])
        leaves = sorted(max(clades, key=len))
        back = {name_of(x, 0): x for x in leaves}
        tree = tree_from_clades(A, clades, None, 0)
        lv, triples = A.trees.tree_to_triples(tree)
        events.append({"op": "breakup", "tree": jtree(clades), "leaves": [back[x] for x in lv],
                       "triples": [[back[x] for x in tr] for tr in triples]})
        rebuilt = A.trees.tree_from_triples(list(lv), list(triples))
        print("rebuilt:", None if rebuilt is None else jtree(clades_of(rebuilt, back)))
        if rebuilt is None or clades_of(rebuilt, back) != clades:
            return 1
    elif op in ("supertree", "allsuper"):
        inputs = [frozenset(frozenset(c) for c in t) for t in case["inputs"]]
        leaves = sorted(set().union(*[max(t, key=len) for t in inputs]))
        back = {name_of(x, 0): x for x in leaves}
        trees = [tree_from_clades(A, t, None, 0) for t in inputs]
        one = mc.safe(A.trees.supertree, [t.copy() for t in trees])
        allt = mc.safe(A.trees.all_supertrees, [t.copy() for t in trees])
        print("observed supertree:", one if one is None or isinstance(one, mc.Raised) else jtree(clades_of(one, back)))
        if isinstance(one, mc.Raised) or isinstance(allt, mc.Raised):
            return 1
        ev = {"inputs": case["inputs"]}
        events.append(dict(ev, op="supertree", ok=one is not None, tree=[] if one is None else jtree(clades_of(one, back))))
        events.append(dict(ev, op="allsuper", trees=ptrees(allt, back)))
    else:
        print("replay of", op, "events: rerun the check with the recorded seed")
        return 2
    print("events:", events)
    bad = mc.validate_sessions(ctx, "TraceTriples", [events])
    return 1 if bad else 0
