"""C02 - ordered super-reconciliation returns a minimum-cost labelled reconciliation.

E1: Ordered!SpecGen (L1 = explicit enumeration L0 on the smallest bound;
    optimal solutions valid; no compatible root order -> no solution) and
    Ordered!SpecSteps (the five-category recurrence of _compute_spfs_entry,
    filled one object node per action for every root order, CellInv against
    the pairwise Bellman layer), extended and base variants; the original
    `sloss = 0` defect constant is refuted as a binding self-test.
E2: every TLC-listed input runs through sreconcile_extended_spfs and
    sreconcile_base_spfs (ALL, ANY); the recorded calls are judged by TLC
    (TraceOrdered.tla: minimum over every mapping, root order and labelling).
E3: seeded random larger inputs (4-5 object leaves, <= 4 species leaves,
    <= 4 families, consistent and inconsistent leaf orders, prescribed roots).
"""
import random

from lib import gen, proj
from . import super_common as sc

CLAUSES = {"ClauseNoFailure", "ClauseMin", "ClauseEmptyIffNoSolution", "ClauseFiniteCost", "ClauseTotalMapping"}
FAM = "ord"
LEAF_SYNS = [(1,), (2,), (1, 2), (2, 1)]


def input_sets(tier, rng):
    costs = sc.SUPER_COSTS
    tiny = list(sc.small_inputs(FAM, gen.bin_shapes_upto(3), gen.bin_shapes_upto(2), LEAF_SYNS, costs[:2]))
    mid = []
    n_mid = 1500 if tier == "thorough" else 260
    for _ in range(n_mid):
        mid.append(sc.random_sinput(rng, FAM, 4, 3, 3, costs=costs, min_obj=3))
    return list(dict.fromkeys(tiny)), list(dict.fromkeys(mid))


def run(ctx, clauses=CLAUSES, prop_note=None):
    thorough = ctx.tier == "thorough"
    rng = random.Random(ctx.seed * 9001 + 2)
    ctx.rule = ("E1/E2: every leaf assignment x every tuple of leaf orders over 2 families on object shapes <= 3 leaves "
                "and species shapes <= 2 leaves (explicit enumeration L0), seeded samples with <= 4 object leaves / 3 "
                "species leaves / 3 families (Bellman layer L1, code-shaped layer L2); E3: seeded inputs with 4-5 object "
                "leaves, <= 4 species leaves, <= 4 families. Non-trivial = at least 2 object leaves and 2 families or a "
                "prescribed root; distinct = distinct input records.")
    ctx.assumptions += ["cost vectors inside spe + 2*sloss <= dup + 2*floss (outside: known finding F-COHERENCE)",
                        "leaf syntenies are non-empty sequences without repetition (documented domain)"]
    tiny, mid = input_sets(ctx.tier, rng)

    # ---- E1 ------------------------------------------------------------------
    for base in (False, True):
        tag = "base" if base else "extended"
        sc.tlc_gen(ctx, FAM, tiny, base, True, f"Ordered SpecGen {tag}: L1 = L0, optimal solutions valid (tiny)")
        sc.tlc_gen(ctx, FAM, mid, base, False, f"Ordered SpecGen {tag}: optimal solutions valid (sampled)")
        sc.tlc_steps(ctx, FAM, tiny[::3] + mid, base, f"Ordered SpecSteps {tag}: code-shaped cells = Bellman optimum")
    ctx.stage("E1")
    res, _ = sc.tlc_steps(ctx, FAM, tiny, False, "ScaleBeforeTest", extra={"ScaleBeforeTest": "TRUE"},
                          expect_violation=True)
    if res.ok:
        raise sc.tlc.MachineryError("self-test: ScaleBeforeTest = TRUE was not refuted by TLC")
    ctx.note("self-test: ScaleBeforeTest=TRUE (test on count * sloss) refuted by TLC (" + ",".join(res.violated) + ")")

    # ---- E2 / E3: the real solvers, judged by TLC -------------------------------
    big = []
    for _ in range(400 if thorough else 110):   # about 2.5 CPU-seconds of trace validation per call on these
        big.append(sc.random_sinput(rng, FAM, 5, 4, 4, min_obj=4))
    # three object leaves on three species leaves: every leaf assignment x every tuple of leaf orders
    tiny3 = list(sc.small_inputs(FAM, gen.bin_shapes(3), gen.bin_shapes(3), LEAF_SYNS, sc.SUPER_COSTS[:1]))
    big += sc.nested_ordered_inputs(rng, 500 if thorough else 200, sc.SUPER_COSTS, deep=thorough)
    e2 = (tiny[::2] + mid + tiny3[ctx.seed % 3::3]) if not thorough else tiny + mid + tiny3
    cases = [(FAM, inp, sc.CALLS) for inp in list(dict.fromkeys(e2 + big))]
    if thorough:
        # every tuple of leaf syntenies (non-empty subsequences of a 4-family root order) on one caterpillar
        import itertools
        ot, st = gen.caterpillar(4), gen.caterpillar(4)
        subs = [tuple(f for i, f in enumerate((1, 2, 3, 4)) if mask >> i & 1) for mask in range(1, 16)]
        lm = gen.random_leaf_map(rng, ot, st)
        leaves = proj.leaves_of(ot)
        sweep = []
        for combo in itertools.product(subs, repeat=4):
            syn = [()] * len(ot)
            for u, s_ in zip(leaves, combo):
                syn[u - 1] = s_
            sweep.append(sc.sinput(ot, st, lm, sc.SUPER_COSTS[0], syn, (1, 2, 3, 4)))
        # a third of the 50 625 tuples per run (the seed picks which): each costs about 0.3 CPU-seconds
        # of trace validation, the full sweep alone would take a quarter of an hour
        sweep = sweep[ctx.seed % 3::3]
        cases += [(FAM, inp, (("ext", "ALL"),)) for inp in sweep]
        ctx.extra["caterpillar_sweep"] = len(sweep)
    results = sc.run_all(cases)
    ctx.stage("solver runs")
    for _, inp, events in results:
        if len(inp["ot"]) >= 3 and (len({f for s in inp["syn"] for f in s}) >= 2 or inp["root"]):
            ctx.nontrivial.add(inp)
    ctx.sample({"engine": "E2/E3-trace", "event": {k: v for k, v in results[0][2][0].items() if k != "sols"},
                "n_sols": len(results[0][2][0]["sols"])})
    ctx.sample({"engine": "E2/E3-trace", "event": results[-1][2][0]})
    sc.validate(ctx, results, clauses)
    sc.replay_known(ctx, ('ord',), clauses)
    ctx.stage("trace validation")


def replay(path):
    import json
    with open(path, encoding="utf-8") as handle:
        case = json.load(handle)["case"]
    return sc.replay_case("C02", case, CLAUSES)
