"""Shared machinery for the plain DTL reconciliation properties (C01, C04, C05,
C06, C07): TLC generation of expectations (L0), the step-wise model (E1), the
replay of every generated input through the real solvers (E2) and the recording
of larger random runs for trace validation (E3)."""
import multiprocessing
import os
import shutil
import traceback

from lib import gen, proj, tlc, tlaval, trace
from lib.proj import INF

THL_CONSTS = {"LossAfterMin": "FALSE", "NoSpeCost": "FALSE", "RootOnlyDecode": "FALSE",
              "Inputs": "<- MCInputs", "SpShapes": "<- MCSp", "ObShapes": "<- MCOb"}


# --------------------------------------------------------------------- TLC
def tlc_generate(ctx, inputs, name, invariants=("L1EqualsL0", "LcaFacts"), timeout=3000):
    """Run THL!SpecGen over the literal input set; returns {input: expect}."""
    wdir = tlc.make_workdir("verif-dtl-")
    try:
        mc = gen.write_mc(wdir, "THL", inputs)
        cfg = os.path.join(wdir, "gen.cfg")
        tlc.write_cfg(cfg, spec="SpecGen", constants=THL_CONSTS, invariants=invariants)
        res = tlc.run(mc, cfg, dump=True, workdir=wdir, timeout=timeout, heap=12288 if len(inputs) > 8000 else None)
        ctx.add_tlc(name, res)
        if not res.ok:
            ctx.violation(f"specification ({name}): {','.join(res.violated)} violated",
                          {"engine": "E1", "trace": tlc.counterexample(res)})
        out = {}
        for state in tlaval.read_dump(res.dump):
            if state["pc"] == "done":
                out[state["input"]] = state["expect"]
        if res.ok and len(out) != len(set(inputs)):
            raise tlc.MachineryError(f"{name}: {len(out)} expectations for {len(set(inputs))} inputs")
        return out
    finally:
        shutil.rmtree(wdir, ignore_errors=True)


def tlc_steps(ctx, inputs, name, consts=None, expect_violation=False, timeout=3000):
    """Run THL!SpecSteps (fill / decode / rank) with CellInv and ResultInv."""
    wdir = tlc.make_workdir("verif-dtl-")
    try:
        mc = gen.write_mc(wdir, "THL", inputs)
        cfg = os.path.join(wdir, "steps.cfg")
        tlc.write_cfg(cfg, spec="SpecSteps", constants=dict(THL_CONSTS, **(consts or {})),
                      invariants=["CellInv", "ResultInv"])
        res = tlc.run(mc, cfg, workdir=wdir, timeout=timeout)
        if expect_violation:
            return res
        ctx.add_tlc(name, res)
        if not res.ok:
            ctx.violation(f"specification ({name}): the code-shaped recurrence disagrees with the "
                          f"event model: {','.join(res.violated)}",
                          {"engine": "E1", "trace": tlc.counterexample(res)})
        return res
    finally:
        shutil.rmtree(wdir, ignore_errors=True)


# ------------------------------------------------------------------ replay
def _call(fn):
    from lib import mc as _mc
    res = _mc.safe(fn)   # exceptions and calls that do not return become values
    if isinstance(res, _mc.Raised):
        return None, res.text
    return res, ""


def _observe_outputs(A, built, outputs):
    sols, costs = [], []
    for out in outputs:
        sols.append(proj.mapping_of(built, out))
    for out in outputs:
        try:
            costs.append(proj.cost_from_impl(A, out.cost()))
        except Exception as err:  # pylint: disable=broad-except
            costs.append(f"{type(err).__name__}: {err}")
    order = sorted(range(len(sols)), key=lambda i: sols[i])
    return [sols[i] for i in order], [costs[i] for i in order]


ALGOS = ("thl_all", "thl_any", "exh_all", "exh_any", "lca", "genall")


def observe_dtl(inp, algos=ALGOS, naming=None):
    """Run the plain solvers of the real code on one abstract input.  Ancestral
    nodes are unnamed for every other input (node labels are no part of the
    problem), unless `naming` says otherwise."""
    if naming is None:
        import json
        import zlib
        naming = "unnamed" if zlib.crc32(json.dumps(proj.inp_to_json(inp), sort_keys=True).encode()) % 2 else "unique"
    A = proj.api()
    from superrec2.compute.reconciliation import reconcile_thl, reconcile_lca
    from superrec2.compute.exhaustive import reconcile_exhaustive, generate_all
    pol = A.dp.RetentionPolicy
    obs = {}
    for algo in algos:
        built = proj.build_input(A, inp, naming=naming)
        if algo == "thl_all":
            res, exc = _call(lambda: list(reconcile_thl(built.input, pol.ALL)))
        elif algo == "thl_any":
            res, exc = _call(lambda: list(reconcile_thl(built.input, pol.ANY)))
        elif algo == "exh_all":
            res, exc = _call(lambda: list(reconcile_exhaustive(built.input, pol.ALL)))
        elif algo == "exh_any":
            res, exc = _call(lambda: list(reconcile_exhaustive(built.input, pol.ANY)))
        elif algo == "lca":
            res, exc = _call(lambda: [reconcile_lca(built.input)])
        else:
            res, exc = _call(lambda: list(generate_all(built.input)))
        if exc:
            obs[algo] = {"exc": exc, "sols": [], "costs": []}
            continue
        if algo == "genall":
            obs[algo] = {"exc": "", "sols": sorted(proj.mapping_of(built, out) for out in res), "costs": []}
            continue
        sols, costs = _call(lambda: _observe_outputs(A, built, res))[0] or ([], ["cost() failed"])
        bad = [c for c in costs if not isinstance(c, int)]
        obs[algo] = {"exc": bad[0] if bad else "", "sols": sols, "costs": costs}
    return obs


def _worker(chunk):
    return [(inp, observe_dtl(inp, algos)) for inp, algos in chunk]


def replay_all(cases, jobs=16):
    """cases: list of (input record, algos).  Returns list of (input, obs)."""
    if not cases:
        return []
    size = max(1, len(cases) // (jobs * 8))
    chunks = [cases[i:i + size] for i in range(0, len(cases), size)]
    with multiprocessing.get_context("fork").Pool(jobs) as pool:
        out = []
        for part in pool.imap(_worker, chunks):
            out.extend(part)
    return out


# ------------------------------------------------------------------ judging
def judge(inp, obs, expect, clauses):
    """Compare observations with the TLC expectation; yields (algo, clause, text)."""
    ranked = {tuple(p[0]): p[1] for p in expect["ranked"]}
    opt = {tuple(m) for m in expect["opt"]}
    mn = expect["min"]
    for algo, o in obs.items():
        sols, costs = o["sols"], o["costs"]
        if o["exc"]:
            if "NoFailure" in clauses:
                yield algo, "NoFailure", f"{algo} fails: {o['exc']}"
            continue
        if algo == "genall":
            if "GenAllExact" in clauses and sols != sorted(ranked):
                dup = len(sols) - len(set(sols))
                missing = len(set(ranked) - set(sols))
                extra = len(set(sols) - set(ranked))
                yield algo, "GenAllExact", (f"generate_all: {len(sols)} yielded, {dup} repeated, "
                                            f"{missing} valid missing, {extra} not valid")
            continue
        if "Valid" in clauses:
            for m in sols:
                if 0 in m:
                    yield algo, "TotalMapping", f"{algo}: mapping {m} leaves a node unmapped"
                elif m not in ranked:
                    yield algo, "Valid", f"{algo}: returned mapping {m} is not a valid reconciliation"
                elif ranked[m] >= INF:
                    yield algo, "FiniteCost", f"{algo}: returned mapping {m} has infinite cost"
        if "CostRecount" in clauses:
            for m, cost in zip(sols, costs):
                if m in ranked and ranked[m] != cost:
                    yield algo, "CostRecount", f"{algo}: cost() of {m} is {cost}, recount {ranked[m]}"
        if algo == "lca":
            if "LcaMap" in clauses and sols != [tuple(expect["lca"])]:
                yield algo, "LcaMap", f"reconcile_lca gives {sols}, LCA mapping is {tuple(expect['lca'])}"
            continue
        if "Min" in clauses:
            for m, cost in zip(sols, costs):
                true = ranked.get(m, cost)   # cost of the returned mapping under the event model
                if cost != mn or true != mn:
                    yield algo, "Min", (f"{algo}: returned mapping {m} costs {true} (reported {cost}), minimum over "
                                        f"all valid reconciliations {mn}")
                    break
        if algo.endswith("_all") and "AllExact" in clauses:
            if len(sols) != len(set(sols)):
                yield algo, "AllDistinct", f"{algo}: a solution is returned twice"
            if set(sols) != opt:
                yield algo, "AllEqualsOpt", (f"{algo}: {len(set(sols))} solutions returned, {len(opt)} optimal; "
                                             f"missing {sorted(opt - set(sols))[:3]} extra {sorted(set(sols) - opt)[:3]}")
        if algo.endswith("_any") and "AnyMember" in clauses:
            if not opt and not sols:
                continue
            if len(sols) != 1 or sols[0] not in opt:
                yield algo, "AnyMember", f"{algo}: returned {sols}, not exactly one optimal solution"


def case_of(inp, algo, obs, expect=None):
    case = {"engine": "E2", "algo": algo, "input": proj.inp_to_json(inp), "observed": obs}
    if expect is not None:
        case["expect_min"] = expect["min"]
        case["expect_opt"] = sorted(list(m) for m in expect["opt"])[:20]
    return case


def nontrivial(inp, expect):
    """>= 2 object leaves and an answer that is not forced."""
    return len(inp["ot"]) >= 3 and len(expect["ranked"]) >= 2


# ------------------------------------------------------------- E3 recording
def random_input(rng, max_obj, max_sp, costs=None, min_obj=2, pred=proj.coherent_dtl):
    ot = gen.random_bin_shape(rng, rng.randint(min_obj, max_obj))
    st = gen.random_bin_shape(rng, rng.randint(1, max_sp))
    lm = gen.random_leaf_map(rng, ot, st)
    c = rng.choice(costs) if costs else gen.random_cost(rng, pred)
    return proj.inp_record(ot, st, lm, c)


def events_of(inp, obs):
    """One trace event per solver call."""
    base = proj.inp_to_json(inp)
    for algo, o in obs.items():
        if algo == "genall":
            continue
        op, _, pol = algo.partition("_")
        yield {"op": op, "policy": pol.upper() if pol else "-", "in": base,
               "exc": o["exc"], "sols": [list(m) for m in o["sols"]],
               "costs": [c if isinstance(c, int) else -1 for c in o["costs"]]}


def validate_events(ctx, events, name):
    sessions = [[e] for e in events]
    chunks, index = trace.split_sessions(sessions, 16)
    verdicts, stats = trace.validate("TraceDTL", chunks, {})
    ctx.states += stats["states"]
    ctx.transitions += stats["transitions"]
    ctx.traces += stats["events"]
    ctx.evaluations += stats["events"]
    ctx.extra.setdefault("e3_events", 0)
    ctx.extra["e3_events"] += stats["events"]
    return verdicts, index


# ------------------------------------------------------------------ replay
def replay(path, prop, clauses, algos=ALGOS):
    """Re-run one recorded case: expectation from TLC (L0), observation from
    the real code in /repo's working tree."""
    import json
    from lib.harness import Context
    with open(path, encoding="utf-8") as handle:
        case = json.load(handle).get("case", {})
    w = case.get("input")
    if not w:
        print("replay file carries no input")
        return 2
    inp = proj.inp_record(w["ot"], w["st"], w["lm"], w["c"])
    ctx = Context(prop, "quick", 0)
    ctx.known = []
    algo = case.get("algo")
    if case.get("engine") == "E3" or len(inp["ot"]) > 9:
        # larger inputs: judged by the trace specification (Bellman layer), as in the run that recorded them
        use = (algo,) if algo in algos else tuple(a for a in algos if a != "genall")
        obs = observe_dtl(inp, use)
        for name, o in obs.items():
            print(f"observed {name}: exc={o['exc']!r} sols={o['sols'][:6]} costs={o['costs'][:6]}")
        verdicts, index = validate_events(ctx, list(events_of(inp, obs)), "TraceDTL")
        bad = [(index[n], cl) for n, cl in verdicts]
        for event, cl in bad:
            print(f"VIOLATION property={prop} replay={path}")
            print(f"  recorded {event['op']}/{event['policy']} run fails {cl}")
        return 1 if bad else 0
    expect = tlc_generate(ctx, [inp], "replay (L0)", invariants=())
    algo = case.get("algo")
    use = (algo,) if algo in algos else algos
    obs = observe_dtl(inp, use)
    print("input   :", proj.inp_to_json(inp))
    print("expected: min", expect[inp]["min"], "optimal", sorted(expect[inp]["opt"])[:10])
    for name, o in obs.items():
        print(f"observed {name}: exc={o['exc']!r} sols={o['sols'][:10]} costs={o['costs'][:10]}")
    bad = list(judge(inp, obs, expect[inp], clauses))
    for _, clause, text in bad:
        print(f"VIOLATION property={prop} replay={path}")
        print(f"  [{clause}] {text}")
    return 1 if bad else 0
