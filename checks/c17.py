"""C17 - ancestry queries on trees and range-minimum queries are exact.

E1: Rmq.tla (sparse table built one level per action, then any query; TableInv,
    BuiltInv, AnswerInv against RangeMin by definition) over every array of the
    bound; Lca.tla (Euler tour, first occurrences, sparse table over
    <<level, node>>, any query of 1-3 nodes; TourInv, TieFree, AnswerInv,
    DerivedInv against the definitions on parent chains, InfoInv for the
    ancestry tables used by the solver specifications) over every rooted
    ordered tree of the bound, unary nodes included.
E2: RmqGen dumps every (array, range) and every (tree, query); each is replayed
    through RangeMinQuery / LowestCommonAncestor.
E3: random trees up to 40 nodes and random arrays up to 40 elements recorded and
    validated by TraceLca.tla.
"""
import itertools
import random

from lib import gen, mc, proj, tlaval


def _api():
    A = proj.api()
    from superrec2.utils.range_min_query import RangeMinQuery
    A.RangeMinQuery = RangeMinQuery
    return A


def rmq_out(value):
    if isinstance(value, mc.Raised):
        return [-99, -99]
    return [] if value is None else list(value)


NAMINGS = ("unique", "unnamed", "same")


def names_for(parents, naming):
    """Node labels are no part of the structure: queries are about node objects."""
    if naming == "unique":
        return None
    return ["" if naming == "unnamed" else "x"] * len(parents)


def replay_tree(A, ctx, parents, val, max_args, naming="unique"):
    root, nodes = proj.build_tree(A.Tree, parents, "n", names_for(parents, naming))
    lca = mc.safe(A.trees.LowestCommonAncestor, root)
    n = len(parents)
    if isinstance(lca, mc.Raised):
        ctx.violation(f"LowestCommonAncestor fails on tree {list(parents)}: {lca.text}",
                      {"engine": "E2", "op": "tree", "par": list(parents)})
        return 0
    index = {node: i for i, node in enumerate(nodes, start=1)}
    count = 0

    def report(op, args, got, want):
        ctx.violation(f"{op}{tuple(args)} = {got!r} on tree {list(parents)} ({naming} node names), "
                      f"definition on parent chains: {want!r}",
                      {"engine": "E2", "op": op, "par": list(parents), "args": list(args), "naming": naming,
                       "observed": repr(got), "expected": want})

    for a in range(1, n + 1):
        got = mc.safe(lca, nodes[a - 1])
        count += 1
        if index.get(got) != a:
            report("lca", (a,), index.get(got, got), a)
        got = mc.safe(lca.level, nodes[a - 1])
        if got != val["lev"][a - 1]:
            report("level", (a,), got, val["lev"][a - 1])
        for b in range(1, n + 1):
            count += 5
            na, nb = nodes[a - 1], nodes[b - 1]
            got = mc.safe(lca, na, nb)
            if index.get(got) != val["lca2"][a - 1][b - 1]:
                report("lca", (a, b), index.get(got, got), val["lca2"][a - 1][b - 1])
            is_anc = b in val["anc"][a - 1]
            got = mc.safe(lca.is_ancestor_of, na, nb)
            if got is not is_anc:
                report("is_ancestor_of", (a, b), got, is_anc)
            got = mc.safe(lca.is_strict_ancestor_of, na, nb)
            if got is not (is_anc and a != b):
                report("is_strict_ancestor_of", (a, b), got, is_anc and a != b)
            got = mc.safe(lca.is_comparable, na, nb)
            want = is_anc or a in val["anc"][b - 1]
            if got is not want:
                report("is_comparable", (a, b), got, want)
            got = mc.safe(lca.distance, na, nb)
            if got != val["dist"][a - 1][b - 1]:
                report("distance", (a, b), got, val["dist"][a - 1][b - 1])
            if max_args >= 3 and val["lca3"]:
                for c in range(1, n + 1):
                    count += 1
                    got = mc.safe(lca, na, nb, nodes[c - 1])
                    if index.get(got) != val["lca3"][a - 1][b - 1][c - 1]:
                        report("lca", (a, b, c), index.get(got, got), val["lca3"][a - 1][b - 1][c - 1])
    return count


def run(ctx):
    A = _api()
    thorough = ctx.tier == "thorough"
    rng = random.Random(ctx.seed * 5003 + 17)
    max_nodes = 8 if thorough else 7
    max_len = 9 if thorough else 7
    ctx.rule = ("E1/E2: every rooted ordered tree up to the node bound (any arity, unary included) x every query of "
                "1-3 nodes / pair query; every array over {0,1,2} up to the length bound x every range (empty "
                "included). E3: random trees/arrays up to 40. Non-trivial = tree with >= 3 nodes or array with >= 2 "
                "elements; distinct = distinct trees / arrays.")
    ctx.assumptions += ["array elements are totally ordered (ints, and <<value, index>> tuples)",
                        "queries stay inside the structure (0 <= start, stop <= len; nodes of the tree)"]
    shapes_text = f"MCShapes == UNION {{AllShapes(k) : k \\in 1..{max_nodes}}}"

    # ---- E1 ----------------------------------------------------------------
    mc.explore(ctx, "Rmq", f"Rmq machine, arrays <= {max_len} over 3 values",
               constants={"MaxLen": str(max_len), "Vals": "{0, 1, 2}", "QueryOff": "0"},
               invariants=["TableInv", "BuiltInv", "AnswerInv"])
    mc.explore(ctx, "Lca", f"Lca machine, trees <= {max_nodes} nodes",
               constants={"Shapes": "<- MCShapes", "MaxArgs": "3", "QueryOff": "0"},
               invariants=["TourInv", "TieFree", "AnswerInv", "DerivedInv", "InfoInv"], mc_text=shapes_text)
    ctx.stage("E1")
    mc.refuted(ctx, "Rmq", "Rmq with QueryOff=1", constants={"MaxLen": "4", "Vals": "{0, 1, 2}", "QueryOff": "1"},
               invariants=["AnswerInv"])

    # ---- E2: arrays ----------------------------------------------------------
    gconst = {"MaxLen": str(max_len), "Vals": "{0, 1, 2}", "Shapes": "<- MCShapes", "MaxArgs": "3"}
    _, states = mc.explore(ctx, "RmqGen", "RmqGen arrays", spec="SpecArr", constants=gconst, dump=True,
                           mc_text=shapes_text)
    n = 0
    for state in states:
        if not state["val"]:
            continue
        arr = list(state["key"])
        plain = mc.safe(A.RangeMinQuery, arr)
        tagged = mc.safe(A.RangeMinQuery, [(v, i) for i, v in enumerate(arr)])
        if isinstance(plain, mc.Raised) or isinstance(tagged, mc.Raised):
            ctx.violation(f"RangeMinQuery({arr}) fails: {plain!r} {tagged!r}", {"engine": "E2", "op": "rmq", "arr": arr})
            continue
        if len(arr) >= 2:
            ctx.nontrivial.add(tuple(arr))
        table = state["val"]
        for s, row in table.items():
            for e, want in row.items():
                n += 1
                got = mc.safe(tagged, s, e)
                got_plain = mc.safe(plain, s, e)
                want_t = None if want == () else tuple(want)
                if got != want_t or got_plain != (None if want_t is None else want_t[0]):
                    ctx.violation(f"RangeMinQuery({arr})({s}, {e}) = {got_plain!r} / tagged {got!r}, "
                                  f"definition: {want_t}",
                                  {"engine": "E2", "op": "rmq", "arr": arr, "s": s, "e": e,
                                   "observed": repr(got), "expected": list(want)})
        if n % 90000 < 60:
            ctx.sample({"op": "rmq", "arr": arr, "ranges": len(table) ** 2})
    ctx.evaluations += n
    ctx.traces += n
    ctx.stage("E2 arrays")

    # ---- E2: trees -----------------------------------------------------------
    _, states = mc.explore(ctx, "RmqGen", "RmqGen trees", spec="SpecTree", constants=gconst, dump=True,
                           mc_text=shapes_text)
    m = 0
    for state in states:
        if not state["val"]:
            continue
        parents = state["key"]
        if len(parents) >= 3:
            ctx.nontrivial.add(tuple(parents))
        for naming in NAMINGS:
            m += replay_tree(A, ctx, parents, state["val"], 3 if naming == "unique" else 2, naming)
        if len(parents) == max_nodes and m % 50 == 0:
            ctx.sample({"op": "tree", "par": list(parents), "lca2_row1": list(state["val"]["lca2"][0])})
    ctx.evaluations += m
    ctx.traces += m
    ctx.stage("E2 trees")

    # ---- E3 ------------------------------------------------------------------
    sessions = []
    for _ in range(40 if thorough else 12):
        nn = rng.randint(8, 40)
        parents = gen.random_shape(rng, nn) if rng.random() < 0.7 else _noisy_caterpillar(rng, nn)
        naming = rng.choice(NAMINGS)
        root, nodes = proj.build_tree(A.Tree, parents, "n", names_for(parents, naming))
        lca = mc.safe(A.trees.LowestCommonAncestor, root)
        ctx.nontrivial.add(tuple(parents))
        events = [{"op": "tree", "par": list(parents)}]
        if isinstance(lca, mc.Raised):
            ctx.violation(f"LowestCommonAncestor fails on {list(parents)}: {lca.text}",
                          {"engine": "E3", "op": "tree", "par": list(parents)})
            continue
        index = {node: i for i, node in enumerate(nodes, start=1)}
        for _ in range(2000 if thorough else 400):
            op = rng.choice(["lca", "lca", "anc", "sanc", "cmp", "level", "dist"])
            a, b = rng.randint(1, nn), rng.randint(1, nn)
            if op == "lca":
                args = [rng.randint(1, nn) for _ in range(rng.randint(1, 4))]
                got = mc.safe(lca, *[nodes[x - 1] for x in args])
                events.append({"op": "lca", "nodes": args, "out": index.get(got, -99)})
            elif op == "level":
                got = mc.safe(lca.level, nodes[a - 1])
                events.append({"op": "level", "a": a, "out": -99 if isinstance(got, mc.Raised) else got})
            else:
                fn = {"anc": lca.is_ancestor_of, "sanc": lca.is_strict_ancestor_of, "cmp": lca.is_comparable,
                      "dist": lca.distance}[op]
                got = mc.safe(fn, nodes[a - 1], nodes[b - 1])
                events.append({"op": op, "a": a, "b": b, "out": -99 if isinstance(got, mc.Raised) else got})
        sessions.append(events)
    arr_events = []
    for _ in range(1500 if thorough else 300):
        nn = rng.randint(1, 40)
        arr = [rng.randint(0, 5) for _ in range(nn)]
        rmq = mc.safe(A.RangeMinQuery, [(v, i) for i, v in enumerate(arr)])
        ctx.nontrivial.add(tuple(arr))
        for _ in range(6):
            s, e = rng.randint(0, nn), rng.randint(0, nn)
            got = rmq if isinstance(rmq, mc.Raised) else mc.safe(rmq, s, e)
            arr_events.append({"op": "rmq", "arr": arr, "s": s, "e": e, "out": rmq_out(got)})
    sessions += [[e] for e in arr_events]
    ctx.sample({"engine": "E3-trace", "events": sessions[0][:4]})
    mc.validate_sessions(ctx, "TraceLca", sessions, count_traces=sum(len(s) for s in sessions),
                         describe=lambda e, cl: f"recorded query {e} fails {cl}")
    lit = [{"op": "tree", "par": [0, 1, 1, 2]}, {"op": "lca", "nodes": [4, 3], "out": 1},
           {"op": "dist", "a": 4, "b": 3, "out": 3}, {"op": "rmq", "arr": [2, 1, 1], "s": 0, "e": 3, "out": [1, 1]}]
    mc.trace_selftest(ctx, "TraceLca", lit,
                      lambda s: [s[0], dict(s[1], out=2), dict(s[2], out=2), dict(s[3], out=[1, 2])],
                      what="three corrupted answers")
    ctx.stage("E3")


def _noisy_caterpillar(rng, n):
    """Deep trees with unary stretches."""
    tree = (0,)
    for i in range(2, n + 1):
        tree += (i - 1 if rng.random() < 0.75 else rng.randint(max(1, i - 4), i - 1),)
    return tree


def replay(path):
    import json
    from lib.harness import Context
    A = _api()
    with open(path, encoding="utf-8") as handle:
        case = json.load(handle)["case"]
    ctx = Context("C17", "quick", 0)
    ctx.known = []
    if "event" in case:
        print("recorded event:", case["event"], "- rerun the check with the recorded seed to reproduce the session")
        return 2
    if case["op"] == "rmq":
        arr = case["arr"]
        rmq = mc.safe(A.RangeMinQuery, [(v, i) for i, v in enumerate(arr)])
        got = rmq if isinstance(rmq, mc.Raised) else mc.safe(rmq, case.get("s", 0), case.get("e", len(arr)))
        events = [{"op": "rmq", "arr": arr, "s": case.get("s", 0), "e": case.get("e", len(arr)), "out": rmq_out(got)}]
    else:
        parents = case["par"]
        root, nodes = proj.build_tree(A.Tree, parents, "n", names_for(parents, case.get("naming", "unique")))
        lca = A.trees.LowestCommonAncestor(root)
        index = {node: i for i, node in enumerate(nodes, start=1)}
        args = case.get("args", [1])
        events = [{"op": "tree", "par": parents}]
        op = case["op"]
        if op in ("lca", "tree"):
            got = mc.safe(lca, *[nodes[x - 1] for x in args])
            events.append({"op": "lca", "nodes": args, "out": index.get(got, -99)})
        elif op == "level":
            events.append({"op": "level", "a": args[0], "out": mc.safe(lca.level, nodes[args[0] - 1])})
        else:
            name = {"is_ancestor_of": "anc", "is_strict_ancestor_of": "sanc", "is_comparable": "cmp",
                    "distance": "dist"}[op]
            got = mc.safe(getattr(lca, op), nodes[args[0] - 1], nodes[args[1] - 1])
            events.append({"op": name, "a": args[0], "b": args[1], "out": -99 if isinstance(got, mc.Raised) else got})
    print("observed:", events[-1])
    bad = mc.validate_sessions(ctx, "TraceLca", [events])
    return 1 if bad else 0
