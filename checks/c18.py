"""C18 - subsequence masks and segment distances are exact.

E1: Subseq.tla - the bit scan of subseq_segment_dist as a state machine (one bit
    per action) over every (child != 0, parent, edges) up to NBits bits, with the
    loop invariant LoopInv, the result invariant ResultInv (= declarative runs)
    and StartsInv (two declarative formulations agree); SubseqGen!SeqInv: mask <->
    subsequence identities and the code-shaped loops on the specification.
E2: SubseqGen dumps one state per parent mask (row of distances for both end
    modes) and one per parent sequence (mask -> subsequence); every entry is
    replayed through subseq_segment_dist / mask_from_subseq / subseq_from_mask /
    subseq_complete.
E3: random wider masks (up to 22 bits) and sequences (up to 12 elements)
    recorded from the real code and validated by TraceSubseq.tla.
"""
import itertools
import random

from lib import mc, tlaval
from lib.harness import setup_repo_path


def _api():
    setup_repo_path()
    from superrec2.utils import subsequences
    return subsequences


def jout(value):
    """Result of a call as recorded in a trace: an exception is recorded as a
    value no specification accepts."""
    if isinstance(value, mc.Raised):
        return -99
    return list(value) if isinstance(value, (list, tuple)) else value


# pairwise distinct under ==, several of them falsy (0 == False, so no booleans)
ODD_ELEMENTS = [0, "", None, 0.5, "g", -1, "0", "None", 1.5, -2]   # JSON-safe, so replays keep them


def parents_for(nmax, perm_upto):
    out = []
    for n in range(0, nmax + 1):
        out.append(tuple(range(1, n + 1)))
    for n in range(2, perm_upto + 1):
        for perm in itertools.permutations(range(1, n + 1)):
            out.append(tuple(perm))
    return list(dict.fromkeys(out))


def run(ctx):
    sub = _api()
    thorough = ctx.tier == "thorough"
    rng = random.Random(ctx.seed * 4099 + 18)
    nbits_scan = 10 if thorough else 8
    nbits_gen = 10 if thorough else 8
    ctx.rule = ("E1: every (child != 0, parent, edges) up to NBits bits through the scan machine; E2: one case per "
                "(child, parent, edges) and per (mask, parent sequence); E3: random wider masks/sequences. Non-trivial = "
                "child contained in parent with at least one missing position (segment distance), or a mask selecting a "
                "proper non-empty subsequence; distinct = distinct argument tuples.")
    ctx.assumptions += ["masks are non-negative integers, sequences have distinct elements (documented domain)",
                        "TLC integers are 32 bit: masks stay below 2^24"]

    # ---- E1: the scan as a state machine ---------------------------------
    mc.explore(ctx, "Subseq", f"Subseq scan machine, {nbits_scan} bits",
               constants={"NBits": str(nbits_scan), "EarlyExitBug": "FALSE"},
               invariants=["ResultInv", "LoopInv"] + ([] if thorough else ["StartsInv"]))
    if thorough:
        mc.explore(ctx, "Subseq", "Subseq StartsInv, 8 bits",
                   constants={"NBits": "8", "EarlyExitBug": "FALSE"}, invariants=["StartsInv"])
    ctx.stage("E1 scan")
    mc.refuted(ctx, "Subseq", "EarlyExitBug=TRUE", constants={"NBits": "4", "EarlyExitBug": "TRUE"},
               invariants=["ResultInv"])

    # ---- E2: segment distances -------------------------------------------
    parents = parents_for(8 if thorough else 6, 5 if thorough else 4)
    consts = {"NBits": str(nbits_gen), "Parents": "<- MCParents"}
    mc_text = "MCParents == " + tlaval.to_tla(frozenset(parents))
    _, states = mc.explore(ctx, "SubseqGen", f"SubseqGen rows, {nbits_gen} bits", spec="SpecGen",
                           constants=consts, dump=True, mc_text=mc_text)
    ctx.stage("E2 generate")
    n = 0
    for state in states:
        if not state["val"]:
            continue
        parent = state["key"]
        for mode, edges in (("t", True), ("f", False)):
            row = state["val"][mode]
            for child, want in enumerate(row, start=1):
                got = mc.safe(sub.subseq_segment_dist, child, parent, edges)
                n += 1
                if want > 0:
                    ctx.nontrivial.add((child, parent, edges))
                if got != want:
                    ctx.violation(f"subseq_segment_dist({child:#b}, {parent:#b}, edges={edges}) = {got}, "
                                  f"specification: {want}",
                                  {"engine": "E2", "op": "segdist", "child": child, "parent": parent,
                                   "edges": edges, "observed": repr(got), "expected": want})
                if n % 400000 == 7:
                    ctx.sample({"op": "segdist", "child": bin(child), "parent": bin(parent), "edges": edges,
                                "expected": want, "observed": got})
    ctx.evaluations += n
    ctx.traces += n
    ctx.stage("E2 segdist replay")

    # ---- E2: masks <-> subsequences --------------------------------------
    _, states = mc.explore(ctx, "SubseqGen", "SubseqGen mask tables", spec="SpecSeq", constants=consts,
                           invariants=["SeqInv"], dump=True, mc_text=mc_text)
    m = 0
    for state in states:
        parent = state["key"]
        table = state["val"]
        if not isinstance(table, (tlaval.Fn, tuple)) or (len(parent) and not table):
            continue
        if isinstance(table, tuple):   # domain 0..k is printed as a function, never as a sequence
            continue
        # relabel: the property is about arbitrary distinct elements
        labels = {v: f"g{v}" for v in parent}
        # "every sequence of distinct elements": also elements that are falsy or None
        # (pairwise distinct under ==), and integers from 0
        odd = dict(zip(sorted(parent), ODD_ELEMENTS))
        for names in (list(parent), [labels[v] for v in parent], [v - 1 for v in parent],
                      [odd[v] for v in parent]):
            ren = dict(zip(parent, names))
            for mask, want in table.items():
                want_named = [ren[v] for v in want]
                got = mc.safe(sub.subseq_from_mask, mask, names)
                back = mc.safe(sub.mask_from_subseq, want_named, names)
                m += 1
                if 0 < len(want) < len(parent):
                    ctx.nontrivial.add((mask, tuple(names)))
                if isinstance(got, mc.Raised) or list(got) != want_named:
                    ctx.violation(f"subseq_from_mask({mask:#b}, {names}) = {got}, specification: {want_named}",
                                  {"engine": "E2", "op": "subseq", "mask": mask, "parent": names,
                                   "observed": repr(got), "expected": want_named})
                if back != mask:
                    ctx.violation(f"mask_from_subseq({want_named}, {names}) = {back}, specification: {mask}",
                                  {"engine": "E2", "op": "mask", "child": want_named, "parent": names,
                                   "observed": repr(back), "expected": mask})
            if mc.safe(sub.subseq_complete, names) != 2 ** len(names) - 1:
                ctx.violation(f"subseq_complete({names}) = {mc.safe(sub.subseq_complete, names)}",
                              {"engine": "E2", "op": "complete", "parent": names})
        if m % 5000 < 70:
            ctx.sample({"op": "mask<->subseq", "parent": list(parent), "entries": len(table)})
    ctx.evaluations += m
    ctx.traces += m
    ctx.stage("E2 mask replay")

    # ---- E3: wider random cases ------------------------------------------
    events = []
    for _ in range(6000 if thorough else 800):
        bits = rng.randint(5, 22)
        parent = rng.getrandbits(bits) | (1 << (bits - 1))
        if rng.random() < 0.8:
            child = parent & rng.getrandbits(bits)
            if rng.random() < 0.5:   # long runs
                lo, hi = sorted((rng.randint(0, bits), rng.randint(0, bits)))
                child &= ~(((1 << hi) - 1) ^ ((1 << lo) - 1))
        else:
            child = rng.getrandbits(bits)
        if child == 0:
            child = parent & -parent
        edges = rng.random() < 0.5
        events.append({"op": "segdist", "child": child, "parent": parent, "edges": edges,
                       "out": jout(mc.safe(sub.subseq_segment_dist, child, parent, edges))})
        ctx.nontrivial.add((child, parent, edges))
    for _ in range(1500 if thorough else 250):
        n_el = rng.randint(1, 12)
        parent = rng.sample(range(0, 40), n_el)   # 0 included: a falsy element
        mask = rng.getrandbits(n_el)
        out = mc.safe(sub.subseq_from_mask, mask, parent)
        events.append({"op": "subseq", "mask": mask, "parent": parent, "out": jout(out)})
        want = [v for i, v in enumerate(parent) if mask >> i & 1]
        events.append({"op": "mask", "child": want, "parent": parent,
                       "out": jout(mc.safe(sub.mask_from_subseq, want, parent))})
        events.append({"op": "complete", "parent": parent, "out": jout(mc.safe(sub.subseq_complete, parent))})
    ctx.sample({"engine": "E3-trace", "events": events[:2] + events[-3:]})
    mc.validate_sessions(ctx, "TraceSubseq", [[e] for e in events], count_traces=len(events),
                         describe=lambda e, cl: f"recorded {e['op']} call {e} fails {cl}")
    # literal event (independent of the code under test): the right answer is 1
    mc.trace_selftest(ctx, "TraceSubseq", [{"op": "segdist", "child": 1, "parent": 11, "edges": True, "out": 1}],
                      lambda s: [dict(s[0], out=0)], what="a segment distance off by one")
    ctx.stage("E3")


def replay(path):
    import json
    sub = _api()
    from lib.harness import Context
    with open(path, encoding="utf-8") as handle:
        case = json.load(handle)["case"]
    if "event" in case:
        case = dict(case["event"], expected=None)
    ctx = Context("C18", "quick", 0)
    ctx.known = []
    op = case["op"]
    if op == "segdist":
        got = sub.subseq_segment_dist(case["child"], case["parent"], case["edges"])
        events = [{"op": op, "child": case["child"], "parent": case["parent"], "edges": case["edges"], "out": got}]
    elif op == "subseq":
        got = list(sub.subseq_from_mask(case["mask"], case["parent"]))
        events = [{"op": op, "mask": case["mask"], "parent": case["parent"], "out": got}]
    elif op == "mask":
        got = sub.mask_from_subseq(case["child"], case["parent"])
        events = [{"op": op, "child": case["child"], "parent": case["parent"], "out": got}]
    else:
        got = sub.subseq_complete(case["parent"])
        events = [{"op": "complete", "parent": case["parent"], "out": got}]
    print("observed:", events[0])
    if events[0].get("parent") and isinstance(events[0]["parent"], list) and \
            not all(isinstance(x, int) for x in events[0]["parent"]):
        names = {v: i for i, v in enumerate(events[0]["parent"], start=1)}
        for key in ("parent", "child", "out"):
            if isinstance(events[0].get(key), list):
                events[0][key] = [names[v] for v in events[0][key]]
    bad = mc.validate_sessions(ctx, "TraceSubseq", [events])
    return 1 if bad else 0
