"""Child process of the determinism check: runs algorithms on given inputs under
the interpreter's own PYTHONHASHSEED and prints (min, size, digest) per job."""
import json
import sys

from lib import proj
from . import meta_common as mcm
from . import super_common as sc


def main():
    jobs = json.loads(sys.stdin.read())
    A = proj.api()
    out = []
    for algo, w in jobs:
        inp = sc.sinput_from_json(w)
        res = mcm.run_algo(A, algo, inp)
        if not isinstance(res, tuple):
            out.append(None)
            continue
        TO, TS = mcm.ident(inp["ot"]), mcm.ident(inp["st"])
        opt = mcm.project(inp, TO, TS, res[1])
        out.append([res[0], len(opt), mcm.digest(opt)])
    print(json.dumps(out))


if __name__ == "__main__":
    main()
