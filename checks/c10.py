"""C10 - the algorithms agree with each other where their models coincide.

E1 (vetting): Meta!AgreeInv - on the specification itself (plain DTL Bellman
    layer, ordered / unordered layers, base variants, LCA mapping) the relations
    extended <= base, unordered <= ordered, DTL <= LCA (= without transfers),
    and the single-family coincidences hold on every input of a bounded domain.
E3: all seven algorithms on the same seeded random input (up to 10 object
    leaves / 8 species leaves / 4 families; every fourth input single-family;
    smaller inputs for the ordered solvers, which are exponential in the
    families); one `agree` event per input carries the seven minima and is
    judged by TraceMeta.tla.
"""
import multiprocessing
import random

from lib import gen, mc, proj
from lib.proj import INF
from . import meta_common as mcm
from . import super_common as sc

CLAUSES = {"ClauseExtendedLeBase", "ClauseUnorderedLeOrdered", "ClauseDtlLeLca", "ClauseExhaustiveEqThl",
           "ClauseDtlEqLcaWithoutTransfers", "ClauseSingleFamilyCoincide"}
META_COSTS = [gen.cost(0, 1, 1, 1, 1), gen.cost(1, 2, 1, 1, 0), gen.cost(1, 1, INF, 1, 0), gen.cost(0, 2, 2, 1, 2),
              gen.cost(2, 2, INF, 1, 1), gen.cost(0, 0, 1, 0, 0), gen.cost(1, 3, 0, 2, 1)]


def meta_inputs(rng, n):
    """Small inputs for the vetting run of Meta.tla."""
    out = []
    shapes_o = gen.bin_shapes_upto(3)
    shapes_s = [(0,), (0, 1, 1), (0, 1, 2, 2, 1), (0, 1, 1, 3, 3)]
    while len(out) < n:
        ot, st = rng.choice(shapes_o), rng.choice(shapes_s)
        fam = rng.choice(["ord", "un"])
        syn, _ = sc.random_syn(rng, fam, ot, rng.randint(1, 2), p_inconsistent=0.1)
        if rng.random() < 0.25:
            syn = [(1,) if u in proj.leaves_of(ot) else () for u in range(1, len(ot) + 1)]
        out.append(sc.sinput(ot, st, gen.random_leaf_map(rng, ot, st), rng.choice(META_COSTS), syn))
    return list(dict.fromkeys(out))


def vet(ctx, inputs, invariants, name):
    from lib import tlc
    import os
    import shutil
    wdir = tlc.make_workdir("verif-meta-")
    try:
        path = gen.write_mc(wdir, "Meta", inputs)
        cfg = os.path.join(wdir, "meta.cfg")
        tlc.write_cfg(cfg, spec="Spec", constants={"Inputs": "<- MCInputs", "SpShapes": "<- MCSp", "ObShapes": "<- MCOb"},
                      invariants=invariants)
        res = tlc.run(path, cfg, workdir=wdir, timeout=3000)
        ctx.add_tlc(name, res)
        if not res.ok:
            ctx.violation(f"specification ({name}): {','.join(res.violated)} violated - the relation does not hold "
                          f"in the model itself", {"engine": "E1", "trace": tlc.counterexample(res)[:6000]})
        return res
    finally:
        shutil.rmtree(wdir, ignore_errors=True)


WINDOW_COSTS = [c for c in (gen.cost(0, 1, 3, 1, 1), gen.cost(0, 1, 2, 1, 1), gen.cost(0, 2, 3, 1, 1), gen.cost(1, 2, 3, 1, 1),
                            gen.cost(0, 1, 3, 1, 0), gen.cost(0, 2, 3, 2, 1), gen.cost(0, 1, 2, 1, 0), gen.cost(1, 1, 3, 2, 1))
                if proj.coherent(c)]


def _agree(job):
    A = proj.api()
    inp, with_ord, with_exh = job
    mins = {}
    errs = {}
    for algo in ("lca", "thl", "exh", "oe", "ob", "ue", "ub"):
        if (algo in ("oe", "ob") and not with_ord) or (algo == "exh" and not with_exh):
            mins[algo] = -1
            continue
        res = mcm.run_algo(A, algo, inp, policy="ANY")
        if isinstance(res, mc.Raised):
            errs[algo] = res.text
            mins[algo] = -1
        else:
            mins[algo] = res[0]
    return inp, mins, errs


def agree_event(inp, mins):
    """The `agree` event of one input from the minima of the seven algorithms."""
    single = all(s == (1,) for u, s in enumerate(inp["syn"], start=1) if u in proj.leaves_of(inp["ot"]))
    m = dict(mins)
    if m["oe"] < 0:      # ordered solvers not run on the large inputs: neutral values
        if single:       # the single-family clause then relates the unordered optima to DTL / LCA
            m["oe"], m["ob"] = m["thl"], m["lca"]
        else:
            m["oe"], m["ob"] = m["ue"], m["ub"]
    return {"op": "agree", "in": sc.sinput_json(inp), "single": single, "hgtinf": inp["c"]["hgt"] >= INF, "mins": m}


def run(ctx):
    thorough = ctx.tier == "thorough"
    rng = random.Random(ctx.seed * 9049 + 10)
    ctx.rule = ("E1: relations on the specification for seeded small inputs (object <= 3 leaves, species <= 3 leaves, <= 2 "
                "families); E3: seven algorithms on seeded random inputs up to 10 object leaves / 8 species leaves / 4 "
                "families (ordered solvers up to 6 leaves / 3 families), every fourth single-family. Non-trivial = at "
                "least 3 object leaves; distinct = distinct inputs.")
    ctx.assumptions += ["cost vectors inside the coherent region spe + 2*sloss <= dup + 2*floss"]
    vet(ctx, meta_inputs(rng, 500 if thorough else 140), ["AgreeInv"], "Meta: agreement relations on the specification")
    ctx.stage("E1 vetting")

    jobs = []
    for i in range(2500 if thorough else 800):
        big = rng.random() < 0.5
        nobj = rng.randint(6, 10) if big else rng.randint(3, 6)
        ot = gen.random_bin_shape(rng, nobj)
        st = gen.random_bin_shape(rng, rng.randint(2, 8 if big else 5))
        fam = "un" if big else rng.choice(["ord", "un"])
        nf = rng.randint(1, 4 if big else 3)
        syn, _ = sc.random_syn(rng, "ord" if not big else "un", ot, nf, p_inconsistent=0.05)
        if i % 4 == 0:
            syn = [(1,) if u in proj.leaves_of(ot) else () for u in range(1, len(ot) + 1)]
        c = gen.random_cost(rng, proj.coherent) if rng.random() < 0.6 else rng.choice(META_COSTS)
        inp = sc.sinput(ot, st, gen.random_leaf_map(rng, ot, st), c, syn)
        jobs.append((inp, not big, nobj <= 5 and len(st) <= 7))
    # directed family (added after seeded change C10c): small multi-family ordered inputs on two
    # or three species with a dear transfer (hgt above the loss costs), where a transfer
    # with one child kept in the host lineage competes with duplication + loss - the
    # region in which the extended ordered solver and its base variant can part
    for i in range(2400 if thorough else 600):
        ot = gen.random_bin_shape(rng, rng.randint(3, 5))
        st = gen.random_bin_shape(rng, rng.randint(2, 3))
        syn, _ = sc.random_syn(rng, "ord", ot, rng.randint(2, 3), p_inconsistent=0.0)
        c = rng.choice(WINDOW_COSTS)
        inp = sc.sinput(ot, st, gen.random_leaf_map(rng, ot, st), c, syn)
        jobs.append((inp, True, len(ot) <= 7))
    with multiprocessing.get_context("fork").Pool(16) as pool:
        results = pool.map(_agree, jobs, chunksize=2)
    ctx.stage("runs")
    events = []
    for inp, mins, errs in results:
        for algo, text in errs.items():
            ctx.violation(f"{algo} fails on {sc.sinput_json(inp)}: {text}",
                          {"engine": "E3", "op": "agree", "algo": algo, "in": sc.sinput_json(inp)})
        if errs:
            continue
        events.append(agree_event(inp, mins))
        if len(inp["ot"]) >= 5:
            ctx.nontrivial.add(inp)
    ctx.sample({"engine": "E3-trace", "event": events[0]})
    ctx.sample({"engine": "E3-trace", "event": events[-1]})
    mc.validate_sessions(ctx, "TraceMeta", [[e] for e in events], relevant=CLAUSES, count_traces=len(events),
                         describe=lambda e, cl: f"minima of the seven algorithms {e['mins']} violate {cl} on {e['in']}")
    lit = [{"op": "agree", "single": True, "hgtinf": False,
            "mins": {"lca": 3, "thl": 2, "exh": 2, "oe": 2, "ob": 3, "ue": 2, "ub": 3}}]
    mc.trace_selftest(ctx, "TraceMeta", lit, lambda s: [dict(s[0], mins=dict(s[0]["mins"], ue=3, ub=4))],
                      what="an unordered optimum above the ordered one")
    ctx.stage("trace validation")


def replay(path):
    import json
    from lib.harness import Context
    with open(path, encoding="utf-8") as handle:
        case = json.load(handle)["case"]
    event = case.get("event", case)
    if "in" not in event:
        return 2
    inp = sc.sinput_from_json(event["in"])
    ctx = Context("C10", "quick", 0)
    ctx.known = []
    _, mins, errs = _agree((inp, len(inp["ot"]) <= 11, len(inp["ot"]) <= 9 and len(inp["st"]) <= 7))
    print("minima:", mins, "errors:", errs)
    if errs:
        return 1
    ev = agree_event(inp, mins)
    bad = mc.validate_sessions(ctx, "TraceMeta", [[ev]], relevant=CLAUSES)
    return 1 if bad else 0
