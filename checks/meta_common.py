"""Runs of the real algorithms on one abstract input under several
presentations, projected to clades so that results are comparable (C09, C10).
Mirrors Meta.tla: a presentation is (new parent array, old = new index -> old
index); leaf data follows its leaf."""
import hashlib
import json
import os
import subprocess
import sys

from lib import gen, mc, proj
from lib.proj import INF
from . import super_common as sc

ALGOS = {   # name -> (family, solver key)
    "thl": ("dtl", None), "lca": ("dtl", None), "exh": ("dtl", None),
    "oe": ("ord", "ext"), "ob": ("ord", "base"), "ue": ("un", "ext"), "ub": ("un", "base"),
}


# ------------------------------------------------------------ presentations
def ident(t):
    return tuple(t), tuple(range(1, len(t) + 1))


def reorder(rng, t):
    """Random reordering of the children of every node."""
    order = []

    def visit(u):
        order.append(u)
        kids = proj.children_of(t, u)
        rng.shuffle(kids)
        for kid in kids:
            visit(kid)

    visit(1)
    pos = {u: i for i, u in enumerate(order, start=1)}
    return tuple(0 if t[u - 1] == 0 else pos[t[u - 1]] for u in order), tuple(order)


def outgroup(rng, st):
    if rng.random() < 0.5:
        return (0,) + tuple(1 if p == 0 else p + 1 for p in st) + (1,), (0,) + tuple(range(1, len(st) + 1)) + (0,)
    return (0, 1) + tuple(1 if p == 0 else p + 2 for p in st), (0, 0) + tuple(range(1, len(st) + 1))


def present(inp, TO, TS, fam_perm=None, cost=None):
    to, oold = TO
    ts, sold = TS
    snew = {old: i for i, old in enumerate(sold, start=1) if old}
    perm = fam_perm or {}
    lm = tuple(0 if inp["lm"][old - 1] == 0 else snew[inp["lm"][old - 1]] for old in oold)
    syn = tuple(tuple(perm.get(f, f) for f in inp["syn"][old - 1]) for old in oold)
    root = tuple(perm.get(f, f) for f in inp["root"])
    return sc.sinput(to, ts, lm, cost or inp["c"], syn, root)


def scaled(c, k):
    return gen.cost(*[c[key] if c[key] >= INF else k * c[key] for key in proj.COST_KEYS])


def raised(c, key):
    vals = {k: c[k] for k in proj.COST_KEYS}
    if vals[key] < INF:
        vals[key] += 1
    return gen.cost(*[vals[k] for k in proj.COST_KEYS])


# ---------------------------------------------------------------- running
def run_algo(A, algo, pinp, policy="ALL", naming="unique", unordered_sorted=True, reuse=None):
    """Run one algorithm on a presented input; returns (min or INF, [solutions])
    with solutions as (m tuple, lab tuple of tuples) or a Raised."""
    fam, key = ALGOS[algo]
    pol = A.dp.RetentionPolicy[policy]
    if fam == "dtl":
        from superrec2.compute.reconciliation import reconcile_thl, reconcile_lca
        from superrec2.compute.exhaustive import reconcile_exhaustive
        built = reuse["built"] if reuse and "built" in reuse else proj.build_input(A, pinp, naming=naming)
        if reuse is not None:
            reuse["built"] = built
        if algo == "lca":
            res = mc.safe(lambda: [reconcile_lca(built.input)])
        elif algo == "thl":
            res = mc.safe(lambda: list(reconcile_thl(built.input, pol)))
        else:
            res = mc.safe(lambda: list(reconcile_exhaustive(built.input, pol)))
        if isinstance(res, mc.Raised):
            return res
        sols = [(proj.mapping_of(built, out), tuple(() for _ in pinp["ot"])) for out in res]
        costs = mc.safe(lambda: [proj.cost_from_impl(A, out.cost()) for out in res])
    else:
        if reuse and "built" in reuse:
            built = reuse["built"]
        else:
            built = proj.build_input(A, pinp, syn=pinp["syn"], unordered=(fam == "un"),
                                     root_syn=pinp["root"] if pinp["root"] else None, naming=naming)
        if reuse is not None:
            reuse["built"] = built
        res = mc.safe(lambda: sc._quiet(lambda: list(sc.solver(A, fam, key)(built.input, pol))))
        if isinstance(res, mc.Raised):
            return res
        sols = []
        for out in res:
            m = proj.mapping_of(built, out)
            lab = []
            for node in built.onodes:
                ids = [proj.fam_id(f) for f in out.syntenies[node]]
                lab.append(tuple(ids if fam == "ord" else sorted(ids)))
            sols.append((m, tuple(lab)))
        costs = mc.safe(lambda: [proj.cost_from_impl(A, out.cost()) for out in res])
    if isinstance(costs, mc.Raised):
        return costs
    if len(set(costs)) > 1:
        return mc.Raised(ValueError(f"returned solutions have different costs {sorted(set(costs))}"))
    return (costs[0] if costs else INF), sols


def project(pinp, TO, TS, sols, fam_unperm=None, sort_labels=False):
    """Solutions as canonical sorted lists of [object clade, species clade, synteny]
    over ORIGINAL leaf ids / family ids."""
    ocl = proj.clades(pinp["ot"])
    scl = proj.clades(pinp["st"])
    oold, sold = TO[1], TS[1]
    unperm = fam_unperm or {}
    out = []
    for m, lab in sols:
        items = []
        for u in range(1, len(pinp["ot"]) + 1):
            oc = sorted(oold[w - 1] for w in ocl[u - 1] if oold[w - 1])
            sc_ = sorted(sold[w - 1] for w in scl[m[u - 1] - 1] if sold[w - 1]) if m[u - 1] else [-1]
            fams = [unperm.get(f, f) for f in lab[u - 1]]
            items.append([oc, sc_, sorted(fams) if sort_labels else fams])
        out.append(sorted(items))
    out.sort()
    return out


def digest(opt):
    return hashlib.sha1(json.dumps(opt, separators=(",", ":")).encode()).hexdigest()[:16]


def meta_event(algo, variant, result, opt, k=1, floss=1, coh=True, cap=60):
    mn = result[0]
    return {"op": "meta", "algo": algo, "variant": variant, "k": k, "floss": floss, "coh": coh, "min": mn,
            "size": len(opt), "digest": digest(opt), "opt": opt if len(opt) <= cap else []}


# ------------------------------------------------- fresh-process repetition
def fresh_digests(jobs, hashseed):
    """jobs: list of (algo, input json).  Runs them in a new interpreter with the
    given PYTHONHASHSEED; returns [(min, size, digest) or None]."""
    env = dict(os.environ, PYTHONHASHSEED=str(hashseed), TQDM_DISABLE="1")
    here = os.path.dirname(os.path.dirname(os.path.abspath(__file__)))
    proc = subprocess.run([sys.executable, "-m", "checks.meta_child"], input=json.dumps(jobs), text=True,
                          capture_output=True, env=env, cwd=here, timeout=3000, check=False)
    if proc.returncode != 0:
        raise mc.MachineryError(f"fresh-process runner failed: {proc.stderr[-2000:]}")
    return json.loads(proc.stdout.strip().splitlines()[-1])
