"""C05 - ALL returns exactly the optimal solutions, ANY returns one of them.

E1: in the solver specifications the optimal set is a first-class value:
    THL!ResultInv (products of retained tags, decoded and re-ranked, give
    exactly the set of optimal reconciliations obtained by explicit enumeration),
    Ordered/Unordered!L1EqualsL0 (optimal set of the Bellman layer = explicit
    enumeration).  C16 supplies the retention contract these rely on.
E2/E3: thl, exh, base_spfs, ext_spfs, base_uspfs, superdtl with both policies on
    TLC-listed inputs and seeded random larger inputs; judged against the
    TLC-computed optimal set (for the unordered solvers: the optimal solutions
    in which every node holds its required families or its parent's plus its
    own gains): ALL = that set, each solution once; ANY = exactly one member;
    equal costs; empty only if there is no solution.
"""
import random

from lib import gen, proj
from . import dtl_common as dc
from . import super_common as sc
from . import c01, c03

CLAUSES = {"ClauseAllEqualsOpt", "ClauseAllDistinct", "ClauseAnyMember", "ClauseSameCost", "ClauseEmptyIffNoSolution"}
DTL_CLAUSES = {"AllExact", "AnyMember"}
ALGOS = ("thl_all", "thl_any", "exh_all", "exh_any")


def run(ctx):
    thorough = ctx.tier == "thorough"
    rng = random.Random(ctx.seed * 9041 + 5)
    ctx.rule = ("thl, exh, base_spfs, ext_spfs, base_uspfs, superdtl x {ALL, ANY}: DTL inputs (object <= 4 leaves, species "
                "<= 3-4 leaves, every leaf assignment, plus seeded 5-6 leaf inputs), ordered / unordered inputs (tiny "
                "exhaustive + seeded random up to 5-6 object leaves, 4 families); tie-rich cost vectors included. "
                "Non-trivial = at least 2 optimal solutions or at least 2 valid ones; distinct = distinct input records.")
    ctx.assumptions += ["cost vectors inside the coherent region (outside: known finding F-COHERENCE)"]

    # ---- plain DTL: E2 against L0 ---------------------------------------------------
    costs = gen.QUICK_COSTS
    inputs = list(gen.dtl_inputs(gen.bin_shapes_upto(3), gen.bin_shapes_upto(3), costs))
    inputs += rng.sample(list(gen.dtl_inputs(gen.bin_shapes(4), gen.bin_shapes_upto(3), costs[:6])), 3000 if thorough else 500)
    inputs += rng.sample(list(gen.dtl_inputs(gen.bin_shapes(4), gen.bin_shapes(4), costs[:4])), 1500 if thorough else 200)
    inputs = list(dict.fromkeys(inputs))
    dc.tlc_steps(ctx, inputs[::2], "THL SpecSteps (ResultInv: decoded optimal set = enumeration)")
    expect = dc.tlc_generate(ctx, inputs, "THL SpecGen (optimal sets by enumeration)", invariants=("L1EqualsL0",))
    results = dc.replay_all([(inp, ALGOS) for inp in inputs])
    seen = 0
    for inp, obs in results:
        exp = expect.get(inp)
        if exp is None:
            continue
        seen += 1
        if len(exp["opt"]) >= 2:
            ctx.nontrivial.add(("dtl", inp))
        if seen % 900 == 1:
            ctx.sample({"family": "dtl", "input": proj.inp_to_json(inp), "n_opt": len(exp["opt"]),
                        "thl_all": len(obs["thl_all"]["sols"]), "thl_any": obs["thl_any"]["sols"]})
        reported = set()
        for algo, clause, text in dc.judge(inp, obs, exp, DTL_CLAUSES):
            if (algo, clause) not in reported:
                reported.add((algo, clause))
                ctx.violation(f"[{clause}] {text} on {proj.inp_to_json(inp)}", dc.case_of(inp, algo, obs[algo], exp))
    ctx.traces += seen
    ctx.evaluations += seen
    ctx.stage("dtl E2")

    # ---- plain DTL: E3 larger, judged by TraceDTL against L1 ----------------------------
    big = [dc.random_input(rng, 7 if thorough else 6, 5, min_obj=5) for _ in range(1200 if thorough else 150)]
    big = list(dict.fromkeys(big))
    results = dc.replay_all([(inp, ("thl_all", "thl_any")) for inp in big])
    events = []
    for inp, obs in results:
        events.extend(dc.events_of(inp, obs))
        ctx.nontrivial.add(("dtl", inp))
    verdicts, index = dc.validate_events(ctx, events, "TraceDTL")
    for nn, clauses in verdicts:
        clauses = [c for c in clauses if c in {"ClauseAllEqualsOpt", "ClauseAllDistinct", "ClauseAnyMember"}]
        if clauses:
            event = index[nn]
            ctx.violation(f"recorded {event['op']}/{event['policy']} run fails {clauses} on {event['in']}",
                          {"engine": "E3", "algo": f"{event['op']}_{event['policy'].lower()}", "input": event["in"],
                           "clauses": clauses, "observed": {"exc": event["exc"], "sols": event["sols"][:10]}})
    ctx.stage("dtl E3")

    # ---- ordered / unordered ---------------------------------------------------------------
    costs = sc.SUPER_COSTS
    cases = []
    for fam, leaf_syns in (("ord", [(1,), (2,), (1, 2), (2, 1)]), ("un", [(1,), (2,), (1, 2)])):
        tiny = list(sc.small_inputs(fam, gen.bin_shapes_upto(3), gen.bin_shapes_upto(2), leaf_syns, costs[:2]))
        mid = [sc.random_sinput(rng, fam, 4, 3, 3, costs=costs, min_obj=3) for _ in range(900 if thorough else 160)]
        big = [sc.random_sinput(rng, fam, 5, 4, 4, costs=costs, min_obj=4) for _ in range(500 if thorough else 70)]
        if fam == "un":
            big += c03.directed_inputs(rng, 400 if thorough else 60)
        sc.tlc_gen(ctx, fam, tiny, False, True, f"{sc.FAMS[fam][0]} SpecGen: optimal set of L1 = explicit enumeration (tiny)",
                   invariants=["L1EqualsL0", "OptValid"])
        sel = list(dict.fromkeys(tiny[::(1 if thorough else 3)] + mid + big))
        cases += [(fam, inp, sc.CALLS) for inp in sel]
    results = sc.run_all(cases)
    for fam, inp, events in results:
        if len(events[0]["sols"]) >= 2:
            ctx.nontrivial.add((fam, inp))
    ctx.sample({"engine": "E2/E3-trace", "event": {k: v for k, v in results[-1][2][0].items() if k != "sols"},
                "ALL": len(results[-1][2][0]["sols"]), "ANY": results[-1][2][1]["sols"]})
    ctx.stage("solver runs")
    sc.validate(ctx, results, CLAUSES)
    ctx.stage("trace validation")
    c01.replay_known(ctx)
    sc.replay_known(ctx, ("ord", "un"), CLAUSES)


def replay(path):
    import json
    with open(path, encoding="utf-8") as handle:
        case = json.load(handle)["case"]
    event = case.get("event", case)
    if "fam" in event:
        return sc.replay_case("C05", case, CLAUSES)
    return dc.replay(path, "C05", DTL_CLAUSES, ALGOS)
