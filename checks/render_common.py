"""Rendering harness for C13-C15: builds a reconciliation from an abstract input
and solution, computes layout and TikZ with the stub measurer for both
orientations, and projects them (species / object nodes as pre-order indices,
coordinates as integers scaled by SCALE)."""
import math
import random
import re

from lib import docproj, mc, proj

SCALE = 4096
NUMERIC_PARAMS = ("species_branch_padding", "gene_branch_spacing", "trunk_overhead", "min_subtree_spacing",
                  "level_spacing", "species_leaf_spacing", "extant_gene_diameter")
KIND = {"LEAF": "L", "SPECIATION": "S", "DUPLICATION": "D", "HORIZONTAL_TRANSFER": "T", "FULL_LOSS": "X"}


def api():
    A = proj.api()
    from superrec2.render import layout, tikz, model
    from superrec2.utils import tex
    A.layout, A.tikz, A.rmodel, A.tex = layout, tikz, model, tex
    return A


class Stub:
    """Stub TeX measurer: seeded integer sizes in call order; `swap` exchanges
    width and height (for the mirror property)."""

    def __init__(self, A, seed, lo=1, hi=100, swap=False):
        self.A, self.seed, self.lo, self.hi, self.swap = A, seed, lo, hi, swap
        self.calls = []

    def __call__(self, texts, preamble=""):
        texts = list(texts)
        self.calls.append(texts)
        rng = random.Random(self.seed)
        out = []
        for _ in texts:
            w, h = rng.randint(self.lo, self.hi), rng.randint(self.lo, self.hi)
            if self.swap:
                w, h = h, w
            out.append(self.A.tex.MeasureBox(float(w), float(h), 0.0))
        return out


def build_rec(A, inp, sol, fam="dtl", onames=None, colours=None, leaf_names=None):
    """ReconciliationOutput / SuperReconciliationOutput for the abstract solution.
    Object leaves are named <species>_<id>; `colours` maps object node index -> html."""
    ot, st = inp["ot"], inp["st"]
    snames = [f"S{i}" for i in range(1, len(st) + 1)]
    names = list(onames) if onames else [f"n{i}" for i in range(1, len(ot) + 1)]
    for u in proj.leaves_of(ot):
        names[u - 1] = (leaf_names or {}).get(u, f"{snames[inp['lm'][u - 1] - 1]}_{u}")
    otree, onodes = proj.build_tree(A.Tree, ot, "o", names)
    stree, snodes = proj.build_tree(A.Tree, st, "s", snames)
    for u, col in (colours or {}).items():
        onodes[u - 1].add_feature("color", col)
    leaf_map = {onodes[u - 1]: snodes[inp["lm"][u - 1] - 1] for u in proj.leaves_of(ot)}
    lca = A.trees.LowestCommonAncestor(stree)
    costs = proj.costs_to_impl(A, inp["c"])
    mapping = {onodes[u]: snodes[sol["m"][u] - 1] for u in range(len(ot))}
    if fam == "dtl":
        rin = A.model.ReconciliationInput(otree, lca, leaf_map, costs)
        rec = A.model.ReconciliationOutput(rin, mapping)
    else:
        leaf_syn = {onodes[u - 1]: [f"g{f}" for f in inp["syn"][u - 1]] for u in proj.leaves_of(ot)}
        rin = A.model.SuperReconciliationInput(otree, lca, leaf_map, costs, leaf_syn)
        syn = {onodes[u]: [(sol.get("fam_names") or {}).get(f, f"g{f}") for f in sol["lab"][u]] for u in range(len(ot))}
        rec = A.model.SuperReconciliationOutput(rin, mapping, syn, fam == "ord")
    return rec, onodes, snodes


def params_for(A, orientation, rng=None, **kw):
    vals = {}
    if rng is not None:
        for key in NUMERIC_PARAMS:
            vals[key] = rng.choice([0.25, 0.5, 1, 2, 2.5, 3, 4, 5, 7, 10, 12, 20, 40])
    vals.update(kw)
    return A.rmodel.DrawParams(orientation=A.rmodel.Orientation[orientation], **vals)


def render(A, rec, params, seed, swap=False, lo=1, hi=100):
    """(layout, tikz text, stub) or Raised."""
    stub = Stub(A, seed, lo, hi, swap)
    A.tex.measure = stub

    def go():
        lay = A.layout.compute(rec, params)
        text = A.tikz.render(rec, lay, params)
        return lay, text, stub
    return mc.safe(go)


def layout_only(A, rec, params, seed, swap=False, lo=1, hi=100):
    """layout.compute alone (the drawing is not generated)."""
    stub = Stub(A, seed, lo, hi, swap)
    A.tex.measure = stub
    return mc.safe(lambda: A.layout.compute(rec, params))


INEXACT = [0]   # coordinates met that are no multiple of 1/SCALE (only changed code produces them)
TOL = 8         # tolerance, in units of 1/SCALE, with which such layouts are judged


def scaled(x):
    """Coordinate as an integer number of 1/SCALE.  The pinned code only adds,
    subtracts and halves integers and half-integers, so its coordinates are
    exact; a changed tree may produce others (a division by three): they are
    rounded, counted in INEXACT, and the layout is judged with tolerance TOL."""
    v = x * SCALE
    if not math.isfinite(v):
        return None
    r = round(v)
    if abs(v - r) > 1e-6:
        INEXACT[0] += 1
    return int(r)


def rect4(r):
    return [scaled(r.x), scaled(r.y), scaled(r.w), scaled(r.h)]


def project_layout(A, lay, onodes, snodes):
    """Abstract image of a layout: per species (pre-order index) the boxes and
    the branches; pseudo-genes are numbered -1, -2, ... in order of appearance."""
    oidx = {n: i for i, n in enumerate(onodes, start=1)}
    sidx = {n: i for i, n in enumerate(snodes, start=1)}
    pseudo = {}

    def gid(g):
        if g is None:
            return 0
        if g in oidx:
            return oidx[g]
        if g not in pseudo:
            pseudo[g] = -(len(pseudo) + 1)
        return pseudo[g]

    species = []
    finite = True
    inexact_before = INEXACT[0]
    for snode in snodes:
        sub = lay[snode]
        branches = []
        for gene, br in sub.branches.items():
            coords = [br.rect.x, br.rect.y, br.rect.w, br.rect.h]
            if not all(math.isfinite(c) for c in coords):
                finite = False
                continue
            branches.append({"gene": gid(gene), "kind": KIND[br.kind.name], "left": gid(br.left), "right": gid(br.right),
                             "rect": rect4(br.rect), "color": br.color if isinstance(br.color, str) else "<none>",
                             "name": br.name if isinstance(br.name, str) else "<none>",
                             "ap": [scaled(br.anchor_parent.x), scaled(br.anchor_parent.y)],
                             "al": [scaled(br.anchor_left.x), scaled(br.anchor_left.y)],
                             "ar": [scaled(br.anchor_right.x), scaled(br.anchor_right.y)],
                             "ac": [scaled(br.anchor_child.x), scaled(br.anchor_child.y)]})
        coords = [sub.rect.x, sub.rect.y, sub.rect.w, sub.rect.h, sub.trunk.x, sub.trunk.y, sub.trunk.w, sub.trunk.h]
        if not all(math.isfinite(c) for c in coords):
            finite = False
            species.append({"sp": sidx[snode], "rect": [0, 0, 0, 0], "trunk": [0, 0, 0, 0], "fork": 0, "anchors": [],
                            "branches": branches})
            continue
        species.append({"sp": sidx[snode], "rect": rect4(sub.rect), "trunk": rect4(sub.trunk),
                        "fork": scaled(sub.fork_thickness),
                        "anchors": sorted([gid(g), scaled(p.x), scaled(p.y)] for g, p in sub.anchors.items()),
                        "branches": branches})
    return {"species": species, "finite": finite, "tol": TOL if INEXACT[0] != inexact_before else 0}


_NODE = re.compile(r"\\node\[(extant gene|speciation|duplication|horizontal gene transfer|loss)=\{(\w+)\}"
                   r"(?:\{((?:[^{}]|\{[^{}]*\})*)\})?\] at \((-?[\d.]+(?:e-?\d+)?),(-?[\d.]+(?:e-?\d+)?)\) \{((?:[^{}]|\{[^{}]*\})*)\};")
_ARROW = re.compile(r"\\path\[transfer branch=\{(\w+)\}\] \((-?[\d.e-]+),(-?[\d.e-]+)\) to\[[^\]]*\] \((-?[\d.e-]+),(-?[\d.e-]+)\);")
_COLOR = re.compile(r"\\definecolor\{(\w+)\}\{HTML\}\{([^}]*)\}")
STYLE = {"extant gene": "L", "speciation": "S", "duplication": "D", "horizontal gene transfer": "T", "loss": "X"}


def parse_tikz(text):
    """Statements of the drawing that C13 / C15 talk about."""
    flat = re.sub(r"\s*\n\s*", "", text.split("\\begin{tikzpicture}", 1)[-1]) if "\\begin{tikzpicture}" in text else ""
    colors = dict(_COLOR.findall(text))
    nodes = []
    for m in _NODE.finditer(flat):
        style, color, leafname, x, y, body = m.groups()
        nodes.append({"kind": STYLE[style], "color": colors.get(color, "?" + color), "pos": (float(x), float(y)),
                      "label": leafname if style == "extant gene" else body})
    arrows = [{"color": colors.get(c, "?" + c), "from": (float(a), float(b)), "to": (float(x), float(y))}
              for c, a, b, x, y in _ARROW.findall(flat)]
    return {"nodes": nodes, "arrows": arrows, "colors": colors}


def near(p, q, tol=2e-4):
    return abs(p[0] - q[0]) <= tol and abs(p[1] - q[1]) <= tol


def locate_tikz(A, lay, parsed, onodes, snodes, params):
    """Match every drawn statement to a branch of the layout by its coordinates.
    Returns (events [[kind, species, gene]], losses [species], arrows [[from gene, to gene]], problems)."""
    oidx = {n: i for i, n in enumerate(onodes, start=1)}
    sidx = {n: i for i, n in enumerate(snodes, start=1)}
    vertical = params.orientation == A.rmodel.Orientation.VERTICAL
    problems = []
    spots = []    # (kind, pos, species, gene or 0, branch)
    for snode in snodes:
        sub = lay[snode]
        for gene, br in sub.branches.items():
            kind = KIND[br.kind.name]
            c = br.rect.center()
            if kind == "L":
                if vertical:
                    pos = (br.rect.top().x, br.rect.top().y + params.extant_gene_diameter / 2)
                else:
                    pos = (br.rect.left().x + params.extant_gene_diameter / 2, br.rect.left().y)
                spots.append((kind, pos, sidx[snode], oidx.get(gene, 0), br))
            elif kind == "X":
                # the marker sits on one of the two long edges of the trunk, at the level of the branch
                for edge in ((sub.trunk.right().x, c.y), (sub.trunk.left().x, c.y)) if vertical else \
                            ((c.x, sub.trunk.bottom().y), (c.x, sub.trunk.top().y)):
                    spots.append((kind, edge, sidx[snode], 0, br))
            else:
                spots.append((kind, (c.x, c.y), sidx[snode], oidx.get(gene, 0), br))
    events, losses = [], []
    used = set()
    for node in parsed["nodes"]:
        hit = [i for i, s in enumerate(spots) if s[0] == node["kind"] and near(s[1], node["pos"]) and id(s[4]) not in used]
        if not hit:
            problems.append(f"a drawn {node['kind']} node at {node['pos']} matches no branch of the layout")
            continue
        s = spots[hit[0]]
        used.add(id(s[4]))
        if node["kind"] == "X":
            losses.append(s[2])
        else:
            events.append([node["kind"], s[2], s[3]])
        node["species"], node["gene"], node["branch_color"] = s[2], s[3], s[4].color
    anchors = []
    for snode in snodes:
        for gene, pos in lay[snode].anchors.items():
            anchors.append(((pos.x, pos.y), sidx[snode], oidx.get(gene, 0)))
    outs = []
    for snode in snodes:
        for gene, br in lay[snode].branches.items():
            if KIND[br.kind.name] == "T":
                outs.append(((br.anchor_left.x, br.anchor_left.y), oidx.get(gene, 0)))
                outs.append(((br.anchor_right.x, br.anchor_right.y), oidx.get(gene, 0)))
    arrows = []
    for arrow in parsed["arrows"]:
        src = [g for pos, g in outs if near(pos, arrow["from"])]
        dst = [(sp, g) for pos, sp, g in anchors if near(pos, arrow["to"])]
        if not src or not dst:
            problems.append(f"a transfer arrow {arrow['from']} -> {arrow['to']} starts at no transfer node or ends at no anchor")
            continue
        # two anchors can coincide (equal centres): every gene anchored at the end point is a candidate
        arrows.append([src[0], [[g, sp] for sp, g in dst]])
    return events, losses, arrows, problems
