"""C16 - a dynamic-programming entry holds the optimum and the right tags.

E1: TLC explores the whole state graph of DPEntry.tla (code-shaped update on a
    standalone entry and on a table cell, ghost set `offered`), DPCombine.tla
    (combine / merge of every pair of reachable entry shapes, every iteration
    order) and, as a binding self-test, re-finds the stale-tag defect with
    StaleTagsBug = TRUE.
E2: every transition of the contract machine (DPGen SpecTrans), every history
    up to length 4/5 in every batching (SpecHist) and every combination
    (DPCombine) is replayed on the real Entry / Table classes; the observed
    (value, tags) must be in the set the contract allows.
E3: random long histories (and, with the hook, the update histories of real
    solver runs) are recorded and validated by TraceDPEntry.tla.
"""
import itertools
import random

from lib import tlc, tlaval, trace
from lib.harness import setup_repo_path

CONSTS = {"Vals": "{0, 1, 2}", "Tags": '{"a", "b"}', "StaleTagsBug": "FALSE"}
INF = 1000000


def _api():
    setup_repo_path()
    from infinity import inf
    from superrec2.utils import dynamic_programming as dp
    return dp, inf


def to_val(v, inf):
    return inf if v == INF else (-inf if v == -INF else v)


def from_val(v, inf):
    return INF if v == inf else (-INF if v == -inf else int(v))


def cand(dp, inf, c):
    return dp.Candidate(to_val(c[0], inf), None if c[1] == "none" else c[1])


def observe(entry, inf):
    """Project every observer of an entry; returns (record, inconsistencies)."""
    infos = set(entry.infos())
    rec = tlaval.Rec(val=from_val(entry.value(), inf), tags=frozenset(infos))
    bad = []
    try:   # the secondary observers: one that fails is an inconsistency, not a reason to stop
        if len(entry) != len(infos):
            bad.append(f"len()={len(entry)} but {len(infos)} tags")
        listed = list(iter(entry))
        if sorted((from_val(c.value, inf), c.info) for c in listed) != sorted((rec["val"], t) for t in infos):
            bad.append(f"iter() yields {listed}")
        one = entry.info()
        if (one is None) != (not infos) or (one is not None and one not in infos):
            bad.append(f"info()={one!r} with tags {sorted(infos)}")
        if entry.is_infinite() != (abs(rec["val"]) == INF):
            bad.append("is_infinite() disagrees with value()")
    except Exception as err:  # pylint: disable=broad-except
        bad.append(f"an observer fails: {type(err).__name__}: {err}")
    return rec, bad


def mp_rp(dp, mp, rp):
    return dp.MergePolicy[mp], dp.RetentionPolicy[rp]


def batchings(n):
    """All ways of cutting a history of length n into consecutive batches."""
    for cuts in itertools.product((0, 1), repeat=max(0, n - 1)):
        parts, start = [], 0
        for i, cut in enumerate(cuts, start=1):
            if cut:
                parts.append((start, i))
                start = i
        parts.append((start, n))
        yield parts


def make_cells(dp, mp, rp):
    """Cells of 1-, 2- and 3-dimensional tables mixing list and dict axes."""
    mpe, rpe = mp_rp(dp, mp, rp)
    t1 = dp.Table((dp.ListDimension(3),), mpe, rpe)
    t2 = dp.Table((dp.DictDimension(), dp.ListDimension(2)), mpe, rpe)
    t3 = dp.Table((dp.ListDimension(2), dp.DictDimension(), dp.DictDimension()), mpe, rpe)
    t4 = dp.Table((dp.ListDimension(2), dp.ListDimension(2), dp.ListDimension(2)), mpe, rpe)
    t5 = dp.Table((dp.ListDimension(2), dp.ListDimension(3), dp.DictDimension()), mpe, rpe)
    return [("table1[1]", t1, (1,)), ("table2['k'][0]", t2, ("k", 0)),
            ("table3[1]['x'][('y',2)]", t3, (1, "x", ("y", 2))),
            ("table4[0][1][1]", t4, (0, 1, 1)), ("table5[1][0]['z']", t5, (1, 0, "z"))]


def cell_proxy(table, key):
    node = table
    for part in key:
        node = node[part]
    return node


def cell_assign(table, key, candidate):
    node = table
    for part in key[:-1]:
        node = node[part]
    node[key[-1]] = candidate


_HIST_STATES = []


def _replay_histories(bounds):
    """Worker: replay histories [lo, hi) in every batching on an Entry and on
    cells of 1-3 dimensional tables; returns (replays, violations, keys)."""
    dp, inf = _api()
    nrep = 0
    bad_cases = []
    keys = []
    for state in _HIST_STATES[bounds[0]:bounds[1]]:
        mp, rp, hist, allowed = state["mp"], state["rp"], state["hist"], state["allowed"]
        mpe, rpe = mp_rp(dp, mp, rp)
        cands = [cand(dp, inf, c) for c in hist]
        if len(hist) >= 2 and any(c[1] != "none" for c in hist):
            keys.append(("H", mp, rp, hist))
        worst = tlaval.Rec(val=INF if mp == "MIN" else -INF, tags=frozenset())
        for parts in batchings(len(hist)):
            targets = [("Entry", dp.Entry(mpe, rpe), None, None)]
            targets += [(name, None, table, tkey) for name, table, tkey in make_cells(dp, mp, rp)]
            for name, entry, table, tkey in targets:
                # every third table run keeps ONE proxy handle: read before the first
                # write, updated through, and read again at the end (a handle is an entry too)
                held = None
                if entry is None and nrep % 3 == 0:
                    held = cell_proxy(table, tkey)
                    pre, _ = observe(held, inf)
                    if pre != worst and len(bad_cases) < 50:
                        bad_cases.append((f"never-written cell {name} reads {dict(pre)}",
                                          {"engine": "E2-history", "structure": name, "mp": mp, "rp": rp,
                                           "history": [], "observed": tlaval.to_py(pre)}))
                for lo, hi in parts:
                    if not hist:
                        break
                    if entry is not None:
                        entry.update(*cands[lo:hi])
                    elif held is not None:
                        held.update(*cands[lo:hi])
                    elif hi - lo == 1 and (lo + nrep) % 2 == 0:
                        cell_assign(table, tkey, cands[lo])
                    else:
                        cell_proxy(table, tkey).update(*cands[lo:hi])
                target = entry if entry is not None else (held if held is not None else cell_proxy(table, tkey))
                got, bad = observe(target, inf)
                if held is not None:
                    fresh, _ = observe(cell_proxy(table, tkey), inf)
                    if fresh != got:
                        bad.append(f"a held proxy reads ({got['val']},{sorted(got['tags'])}), fresh indexing "
                                   f"({fresh['val']},{sorted(fresh['tags'])})")
                    name = name + " (held handle)"
                nrep += 1
                if (got not in allowed or bad) and len(bad_cases) < 50:
                    case = {"engine": "E2-history", "structure": name, "mp": mp, "rp": rp,
                            "history": [list(c) for c in hist], "batches": parts,
                            "observed": tlaval.to_py(got), "allowed": tlaval.to_py(allowed)}
                    what = (f"{name} {mp}/{rp} after {[list(c) for c in hist]} in batches {parts}: "
                            f"({got['val']},{sorted(got['tags'])}) not allowed" if got not in allowed
                            else "observers disagree: " + "; ".join(bad))
                    bad_cases.append((what, case))
                if table is not None and hist:
                    # every cell that differs from the written one in one coordinate was never written
                    for pos, part in enumerate(tkey):
                        other_key = tkey[:pos] + ((part + 1) % 2 if isinstance(part, int) else "other",) + tkey[pos + 1:]
                        ogot, _ = observe(cell_proxy(table, other_key), inf)
                        if ogot != worst and len(bad_cases) < 50:
                            bad_cases.append((f"never-written cell {list(other_key)} of {name} reads {dict(ogot)}",
                                              {"engine": "E2-history", "structure": name, "mp": mp, "rp": rp,
                                               "history": [list(c) for c in hist],
                                               "observed_neighbour": tlaval.to_py(ogot)}))
    return nrep, bad_cases, keys


def run(ctx):
    dp, inf = _api()
    thorough = ctx.tier == "thorough"
    ctx.rule = ("E1: all reachable states of DPEntry/DPCombine; E2: one case per contract transition, "
                "per history (x every batching x 6 structures) and per combination; E3: random histories. "
                "A case is non-trivial when at least one candidate carries a tag and the history has >= 2 candidates "
                "or the pre-state already holds an offered candidate; distinct = distinct (policies, pre-state/history) keys.")
    ctx.assumptions += [
        "candidate values are finite integers and tags are truthy hashable values (documented domain)",
        "TLC 1.8 evaluates the specification correctly; the TLA+ value reader is exercised by the self-test",
    ]
    workdirs = []

    # ---- E1 ---------------------------------------------------------------
    cfg_dir = tlc.make_workdir("verif-c16-")
    workdirs.append(cfg_dir)
    cfg = f"{cfg_dir}/entry.cfg"
    tlc.write_cfg(cfg, spec="Spec", constants=dict(CONSTS, WithInf="TRUE" if thorough else "FALSE"),
                  invariants=["EntryContract", "CellContract", "NeverWritten"], properties=["Monotone"])
    res = tlc.run("DPEntry", cfg)
    ctx.add_tlc("DPEntry state graph", res)
    if not res.ok:
        ctx.violation("specification: code-shaped Entry.update leaves the contract: " + ",".join(res.violated),
                      {"engine": "E1", "trace": tlc.counterexample(res)})
    tlc.cleanup(res)

    # binding self-test: the defect constant must be refuted by TLC
    cfg = f"{cfg_dir}/entry_bug.cfg"
    tlc.write_cfg(cfg, spec="Spec", constants=dict(CONSTS, StaleTagsBug="TRUE", WithInf="FALSE"),
                  invariants=["EntryContract"])
    res = tlc.run("DPEntry", cfg)
    if res.ok:
        raise tlc.MachineryError("self-test: StaleTagsBug = TRUE was not refuted by TLC")
    ctx.note("self-test: StaleTagsBug=TRUE refuted by TLC (" + ",".join(res.violated) + ")")
    tlc.cleanup(res)

    # ---- E2: transitions --------------------------------------------------
    cfg = f"{cfg_dir}/trans.cfg"
    gconst = dict(CONSTS, WithInf="FALSE", MaxHist="5" if thorough else "4")
    tlc.write_cfg(cfg, spec="SpecTrans", constants=gconst, invariants=["TransInv"])
    res = tlc.run("DPGen", cfg, dump=True)
    ctx.add_tlc("DPGen transitions", res)
    if not res.ok:
        ctx.violation("specification: ImplStep leaves the contract from a contract state",
                      {"engine": "E1", "trace": tlc.counterexample(res)})
    ntrans = 0
    for state in tlaval.read_dump(res.dump):
        if not state["allowed"]:
            continue
        ntrans += 1
        mp, rp, pre, c = state["mp"], state["rp"], state["pre"], state["hist"][0]
        mpe, rpe = mp_rp(dp, mp, rp)
        entry = dp.Entry(to_val(pre["val"], inf), set(pre["tags"]), mpe, rpe)
        entry.update(cand(dp, inf, c))
        got, bad = observe(entry, inf)
        key = ("T", mp, rp, pre, state["off"], c)
        ctx.count(key, nontrivial=bool(state["off"]) and (c[1] != "none" or bool(pre["tags"])))
        case = {"engine": "E2-transition", "mp": mp, "rp": rp, "pre": tlaval.to_py(pre),
                "offered_before": tlaval.to_py(state["off"]), "candidate": list(c),
                "observed": tlaval.to_py(got), "allowed": tlaval.to_py(state["allowed"])}
        if got not in state["allowed"]:
            ctx.violation(f"Entry({pre['val']},{sorted(pre['tags'])},{mp},{rp}).update({list(c)}) -> "
                          f"({got['val']},{sorted(got['tags'])}) not allowed by the contract", case)
        elif bad:
            ctx.violation("observers of one entry disagree: " + "; ".join(bad), case)
        if ntrans % 5000 == 1:
            ctx.sample(case)
    ctx.traces += ntrans
    tlc.cleanup(res)

    # ---- E2: histories in every batching, on entries and table cells -------
    cfg = f"{cfg_dir}/hist.cfg"
    tlc.write_cfg(cfg, spec="SpecHist", constants=gconst, invariants=["HistInv"])
    res = tlc.run("DPGen", cfg, dump=True)
    ctx.add_tlc("DPGen histories", res)
    if not res.ok:
        ctx.violation("specification: ImplBatch leaves the contract on some history",
                      {"engine": "E1", "trace": tlc.counterexample(res)})
    states = list(tlaval.read_dump(res.dump))
    global _HIST_STATES
    _HIST_STATES = states
    nhist = len(states)
    nrep = 0
    import multiprocessing
    jobs = 16
    bounds = [(i * nhist // jobs, (i + 1) * nhist // jobs) for i in range(jobs)]
    with multiprocessing.get_context("fork").Pool(jobs) as pool:
        parts_out = pool.map(_replay_histories, bounds)
    for count, bad_cases, keys in parts_out:
        nrep += count
        for key in keys:
            ctx.count(key, nontrivial=True, n=0)
        for what, case in bad_cases:
            ctx.violation(what, case)
    for state in states[2::9000]:
        ctx.sample({"engine": "E2-history", "mp": state["mp"], "rp": state["rp"],
                    "history": [list(c) for c in state["hist"]],
                    "allowed": tlaval.to_py(state["allowed"]),
                    "batchings": 2 ** max(0, len(state["hist"]) - 1)})
    ctx.evaluations += nrep
    ctx.traces += nhist
    ctx.extra["histories"] = nhist
    ctx.extra["history_replays"] = nrep
    tlc.cleanup(res)

    # ---- E2: combinations --------------------------------------------------
    cfg = f"{cfg_dir}/comb.cfg"
    tlc.write_cfg(cfg, spec="Spec", constants=dict(CONSTS, WithInf="FALSE"),
                  invariants=["CombineInv", "MergeInv"])
    res = tlc.run("DPCombine", cfg, dump=True)
    ctx.add_tlc("DPCombine", res)
    if not res.ok:
        ctx.violation("specification: code-shaped combine/merge leaves the contract",
                      {"engine": "E1", "trace": tlc.counterexample(res)})
    ncomb = 0
    for state in tlaval.read_dump(res.dump):
        if not state["expect"]:
            continue
        ncomb += 1
        mp, rp, e1, e2, w = state["cm"], state["cr"], state["e1"], state["e2"], state["w"]
        mpe, rpe = mp_rp(dp, mp, rp)
        left = dp.Entry(to_val(e1["val"], inf), set(e1["tags"]), mpe, rpe)
        right = dp.Entry(to_val(e2["val"], inf), set(e2["tags"]), mpe, rpe)

        def combinator(a, b, w=w):
            if a.value in (inf, -inf):
                return dp.Candidate(a.value, f"{a.info}|{b.info}")
            if b.value in (inf, -inf):
                return dp.Candidate(b.value, f"{a.info}|{b.info}")
            return dp.Candidate(a.value + b.value + w[(a.info, b.info)], f"{a.info}|{b.info}")

        got, bad = observe(left.combine(right, combinator), inf)
        key = ("C", mp, rp, e1, e2, w)
        ctx.count(key, nontrivial=bool(e1["tags"]) and bool(e2["tags"]))
        if got not in state["expect"] or bad:
            ctx.violation(f"combine {mp}/{rp} of {dict(e1)} and {dict(e2)} gives "
                          f"({got['val']},{sorted(got['tags'])}), contract allows {tlaval.to_py(state['expect'])}",
                          {"engine": "E2-combine", "mp": mp, "rp": rp, "e1": tlaval.to_py(e1),
                           "e2": tlaval.to_py(e2), "w": tlaval.to_py(w), "observed": tlaval.to_py(got)})
        # the same through a table cell proxy on the left-hand side
        table = dp.Table((dp.DictDimension(),), mpe, rpe)
        if e1["tags"] and abs(e1["val"]) != INF:
            table["k"].update(*[dp.Candidate(to_val(e1["val"], inf), t) for t in e1["tags"]])
            if rp != "ANY" or len(e1["tags"]) == 1:
                got2, _ = observe(table["k"].combine(right, combinator), inf)
                if got2 not in state["expect"]:
                    ctx.violation(f"EntryProxy.combine {mp}/{rp} differs from the contract",
                                  {"engine": "E2-combine-proxy", "mp": mp, "rp": rp, "e1": tlaval.to_py(e1),
                                   "e2": tlaval.to_py(e2), "w": tlaval.to_py(w), "observed": tlaval.to_py(got2)})
        else:
            empty = table["zz"].combine(right, combinator)
            got2, _ = observe(empty, inf)
            if got2 != tlaval.Rec(val=INF if mp == "MIN" else -INF, tags=frozenset()):
                ctx.violation("combine on a never-written cell is not (worst, {})",
                              {"engine": "E2-combine-proxy", "mp": mp, "rp": rp, "observed": tlaval.to_py(got2)})
        if ncomb % 3000 == 5:
            ctx.sample({"engine": "E2-combine", "mp": mp, "rp": rp, "e1": tlaval.to_py(e1),
                        "e2": tlaval.to_py(e2), "expect": tlaval.to_py(state["expect"])})
    ctx.traces += ncomb
    tlc.cleanup(res)

    # ---- E3: random long histories validated by the trace specification ----
    rng = random.Random(ctx.seed * 7919 + 16)
    nsessions = 1500 if thorough else 160
    sessions = []
    tags = ["t1", "t2", "t3", "t4", "t5"]
    for sid in range(nsessions):
        mp = rng.choice(["MIN", "MAX"])
        rp = rng.choice(["NONE", "ANY", "ALL", "ALL", "ANY"])
        mpe, rpe = mp_rp(dp, mp, rp)
        events = []
        entries = {}
        nid = 0

        def new_entry(is_cell):
            nonlocal nid
            nid += 1
            if is_cell:
                table = dp.Table((dp.DictDimension(), dp.ListDimension(4)), mpe, rpe)
                entries[nid] = ("cell", table)
            else:
                entries[nid] = ("entry", dp.Entry(mpe, rpe))
            events.append({"op": "new", "id": nid, "mp": mp, "rp": rp, "cell": is_cell})
            return nid

        def target(eid):
            kind, obj = entries[eid]
            return obj["key"][2] if kind == "cell" else obj

        ids = [new_entry(False), new_entry(rng.random() < 0.5), new_entry(True)]
        lo = rng.randint(0, 6)
        for _ in range(rng.randint(5, 40)):
            if rng.random() < 0.12 and len(ids) < 8:
                a, b = rng.choice(ids), rng.choice(ids)
                pairs = []

                def comb(x, y, pairs=pairs):
                    if x.value in (inf, -inf) or y.value in (inf, -inf):
                        val = x.value if x.value in (inf, -inf) else y.value
                    else:
                        val = x.value + y.value + rng.randint(0, 1)
                    out = dp.Candidate(val, f"{x.info}|{y.info}")
                    pairs.append([from_val(val, inf), out.info])
                    return out

                result = target(a).combine(target(b), comb)
                nid += 1
                entries[nid] = ("entry", result if isinstance(result, dp.Entry) else dp.Entry(mpe, rpe))
                ids.append(nid)
                got, _ = observe(result, inf)
                events.append({"op": "combine", "a": a, "b": b, "id": nid, "pairs": pairs,
                               "val": got["val"], "tags": sorted(got["tags"])})
                continue
            eid = rng.choice(ids)
            batch = []
            for _ in range(rng.randint(1, 3)):
                val = rng.randint(lo, lo + 3)
                tag = rng.choice(tags + ["none", "none"])
                batch.append([val, tag])
            if rng.random() < 0.08:
                batch.append([INF if mp == "MIN" else -INF, rng.choice(tags)])
            target(eid).update(*[cand(dp, inf, c) for c in batch])
            got, _ = observe(target(eid), inf)
            events.append({"op": "update", "id": eid, "cands": batch, "val": got["val"],
                           "tags": sorted(got["tags"])})
        sessions.append(events)
    chunks, index = trace.split_sessions(sessions, 16)
    verdicts, stats = trace.validate("TraceDPEntry", chunks, {"StaleTagsBug": "FALSE"})
    ctx.states += stats["states"]
    ctx.transitions += stats["transitions"]
    ctx.traces += len(sessions)
    ctx.evaluations += stats["events"]
    ctx.extra["e3_events"] = stats["events"]
    ctx.nontrivial_extra += len(sessions)
    ctx.sample({"engine": "E3-trace", "events": sessions[0][:6]})
    for n, clauses in verdicts:
        event = index[n]
        ctx.violation(f"recorded Entry event fails {clauses}: {event}",
                      {"engine": "E3-trace", "event": event, "clauses": clauses})

    # binding self-test of the trace direction: corrupt one recorded field
    bad_session = [dict(e) for e in sessions[0]]
    for event in bad_session:
        if event["op"] == "update":
            event["val"] = event["val"] + 1
            break
    chunks2, _ = trace.split_sessions([bad_session], 1)
    verdicts2, _ = trace.validate("TraceDPEntry", chunks2, {"StaleTagsBug": "FALSE"})
    if not verdicts2:
        raise tlc.MachineryError("self-test: corrupted trace was accepted by TraceDPEntry")
    ctx.note("self-test: a trace with one corrupted value was rejected by TraceDPEntry")
    hooked_histories(ctx, rng, thorough)
    apalache_inductive(ctx)
    for wdir in workdirs:
        import shutil
        shutil.rmtree(wdir, ignore_errors=True)


def apalache_inductive(ctx):
    """Unbounded candidate values: Apalache discharges Init => IndInv and
    IndInv /\\ Next => IndInv' for the contract over all integers, and refutes
    the defect constant (binding self-test)."""
    import os
    import shutil
    import subprocess
    import tempfile
    import time
    spec = os.path.join(tlc.SPEC_DIR, "apalache", "DPEntryInd.tla")
    wdir = tempfile.mkdtemp(prefix="verif-apa-")
    results = {}
    try:
        for name, args, want in (("base", ["--cinit=CInit", "--init=Init", "--length=0"], "NoError"),
                                 ("step", ["--cinit=CInit", "--init=IndInit", "--length=1"], "NoError"),
                                 ("defect", ["--cinit=CInitBug", "--init=IndInit", "--length=1"], "Error")):
            start = time.time()
            proc = subprocess.run(["apalache-mc", "check", "--inv=IndInv", f"--out-dir={wdir}/out"] + args + [spec],
                                  cwd=wdir, capture_output=True, text=True, timeout=900, check=False)
            outcome = [line.split("outcome is:")[1].split()[0] for line in proc.stdout.splitlines() if "outcome is:" in line]
            results[name] = {"outcome": outcome[-1] if outcome else "?", "wall_s": round(time.time() - start, 1)}
            if not outcome:
                raise tlc.MachineryError(f"apalache-mc gave no outcome ({name}): {proc.stdout[-600:]} {proc.stderr[-300:]}")
            if name == "defect":
                if outcome[-1] != "Error":
                    raise tlc.MachineryError("self-test: Apalache did not refute StaleBug = TRUE")
            elif outcome[-1] != want:
                ctx.violation(f"specification: the Entry contract is not inductive over the integers ({name}: {outcome[-1]})",
                              {"engine": "E1-apalache", "obligation": name, "output": proc.stdout[-3000:]})
    finally:
        shutil.rmtree(wdir, ignore_errors=True)
    ctx.extra["apalache"] = {"module": "spec/apalache/DPEntryInd.tla", "obligations": 2, "results": results,
                             "cmd": "apalache-mc check --cinit=CInit --init=IndInit --inv=IndInv --length=1 DPEntryInd.tla"}
    ctx.note("Apalache: Init => IndInv and IndInv /\\ Next => IndInv' hold for candidate values over all integers; "
             "StaleBug = TRUE refuted")


def hooked_histories(ctx, rng, thorough):
    """E3 with the tracing hook: the update histories the real solvers generate
    (thousands of entries per run) validated against the same contract."""
    import json
    import os
    import subprocess
    import sys
    import tempfile
    from lib import gen
    from lib.harness import REPO, GUARD
    from . import super_common as sc
    jobs = []
    for fam in ("dtl", "ord", "un"):
        for _ in range(6 if thorough else 2):
            sfam = "un" if fam == "dtl" else fam
            inp = sc.random_sinput(rng, sfam, 4, 3, 3, costs=sc.SUPER_COSTS[:5], min_obj=3, p_root=0.0)
            jobs.append((fam, rng.choice(["ALL", "ANY"]), sc.sinput_json(inp)))
    here = os.path.dirname(os.path.dirname(os.path.abspath(__file__)))
    sessions = []
    for job in jobs:
        fd, path = tempfile.mkstemp(prefix="verif-hook-", suffix=".ndjson")
        os.close(fd)
        env = dict(os.environ, TQDM_DISABLE="1")
        env[GUARD] = "1"
        env[GUARD + "_TRACE"] = path
        proc = subprocess.run([sys.executable, "-m", "checks.c16_hooked"], input=json.dumps([job]), text=True,
                              capture_output=True, env=env, cwd=here, timeout=1200, check=False)
        if proc.returncode != 0:
            os.unlink(path)
            ctx.violation(f"solver run with the tracing hook on fails on {job}: {proc.stderr[-400:]}",
                          {"engine": "E3-hook", "job": job})
            continue
        with open(path, encoding="utf-8") as handle:
            lines = [json.loads(line) for line in handle if line.strip()]
        os.unlink(path)
        if not lines:      # e.g. leaf orders without a common root order: no table is filled
            continue
        events = []
        seen = set()
        budget = 2500 if thorough else 900

        def num(v):
            return INF if v == "inf" else (-INF if v == "-inf" else int(v))

        for rec in lines[:budget]:
            if rec["id"] not in seen:
                if not rec["first"]:
                    continue
                seen.add(rec["id"])
                events.append({"op": "new", "id": rec["id"], "mp": rec["mp"], "rp": rec["rp"], "cell": False})
            events.append({"op": "update", "id": rec["id"], "cands": [[num(c[0]), c[1]] for c in rec["cands"]],
                           "val": num(rec["val"]), "tags": rec["tags"]})
        sessions.append(events)
        ctx.nontrivial_extra += 1
    if not sessions:
        raise tlc.MachineryError("the tracing hook recorded nothing in any run: is the guard honoured by /repo's working tree?")
    chunks, index = trace.split_sessions(sessions, 16)
    verdicts, stats = trace.validate("TraceDPEntry", chunks, {"StaleTagsBug": "FALSE"})
    ctx.states += stats["states"]
    ctx.transitions += stats["transitions"]
    ctx.traces += len(sessions)
    ctx.evaluations += stats["events"]
    ctx.extra["hooked_update_events"] = stats["events"]
    ctx.sample({"engine": "E3-hook", "job": jobs[0], "events": sessions[0][:4]})
    for n, clauses in verdicts:
        event = index[n]
        ctx.violation(f"Entry.update recorded during a real solver run fails {clauses}: {event}",
                      {"engine": "E3-hook", "event": event, "clauses": clauses})


def replay(path):
    """Re-run one recorded case on /repo's working tree against the contract
    (specification side: DPGen!Allowed through a one-history TLC run)."""
    import json
    from lib.harness import Context
    dp, inf = _api()
    with open(path, encoding="utf-8") as handle:
        case = json.load(handle)["case"]
    ctx = Context("C16", "quick", 0)
    ctx.known = []
    mp, rp = case.get("mp"), case.get("rp")
    if case.get("engine") == "E2-transition":
        pre = case["pre"]
        hist = [tuple(c) for c in (case["offered_before"].get("$set") or [])] + [tuple(case["candidate"])]
    elif case.get("engine") == "E2-history":
        hist = [tuple(c) for c in case["history"]]
    elif "event" in case:
        print("recorded event:", case["event"], "- rerun the check with the recorded seed to reproduce the session")
        return 2
    else:
        print("nothing to replay")
        return 2
    mpe, rpe = mp_rp(dp, mp, rp)
    entry = dp.Entry(mpe, rpe)
    session = [{"op": "new", "id": 1, "mp": mp, "rp": rp, "cell": False}]
    for c in hist:
        entry.update(cand(dp, inf, c))
        got, _ = observe(entry, inf)
        session.append({"op": "update", "id": 1, "cands": [list(c)], "val": got["val"], "tags": sorted(got["tags"])})
    table = dp.Table((dp.ListDimension(2),), mpe, rpe)
    handle_ = table[1]
    session.append({"op": "new", "id": 2, "mp": mp, "rp": rp, "cell": True})
    for c in hist:
        handle_.update(cand(dp, inf, c))
        got, _ = observe(handle_, inf)
        session.append({"op": "update", "id": 2, "cands": [list(c)], "val": got["val"], "tags": sorted(got["tags"])})
    print("observed:", session[-1], "(held table handle)", session[len(hist)], "(entry)")
    chunks, index = trace.split_sessions([session], 1)
    verdicts, _ = trace.validate("TraceDPEntry", chunks, {"StaleTagsBug": "FALSE"}, jobs=1)
    for n, clauses in verdicts:
        print(f"VIOLATION property=C16 replay={path}")
        print(f"  {index[n]} fails {clauses}")
    bad = 0
    if case.get("engine") == "E2-history":   # the cells next to the written one stay never-written (DPEntry!NeverWritten)
        worst = tlaval.Rec(val=INF if mp == "MIN" else -INF, tags=frozenset())
        for name, table_, tkey in make_cells(dp, mp, rp):
            for c in hist:
                cell_proxy(table_, tkey).update(cand(dp, inf, c))
            for pos, part in enumerate(tkey):
                other_key = tkey[:pos] + ((part + 1) % 2 if isinstance(part, int) else "other",) + tkey[pos + 1:]
                ogot, _ = observe(cell_proxy(table_, other_key), inf)
                if hist and ogot != worst:
                    bad += 1
                    print(f"VIOLATION property=C16 replay={path}")
                    print(f"  never-written cell {list(other_key)} of {name} reads {dict(ogot)} after {hist} went to {list(tkey)}")
    return 1 if verdicts or bad else 0
