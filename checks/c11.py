"""C11 - serialised results read back to the same reconciliation.

E1: Serial.tla - the name-keyed dictionary form as a state machine
    (object -> dict -> parsed -> redumped); action property RoundTrip: for
    uniquely named documents parsing gives back the object and serialising again
    the same dictionary, over documents whose names include collisions and
    names differing only by case (self-test: a case-insensitive lookup is
    refuted).
E2/E3: documents built directly (all tree shapes <= 4 leaves, names over letters,
    digits and underscores, colour features on arbitrary nodes, float infinite
    transfer cost, with / without labelling, ordered / unordered) and solver
    outputs / random valid reconciliations up to 8 leaves go through
    X.from_dict(json.loads(json.dumps(x.to_dict()))); documents before / after /
    after re-serialisation are projected and judged by TracePipeline.tla
    (ClauseSameDocument, ClauseSameEventsAndCost, ClauseReserialise); the two
    dictionaries must agree verbatim on the listed fields.
"""
import json
import random

from lib import docproj, gen, mc, proj
from lib.proj import INF
from lib.tlaval import to_tla
from . import super_common as sc

CLAUSES = {"ClauseSameDocument", "ClauseSameEventsAndCost", "ClauseReserialise"}
LISTED = ("object_tree", "species_tree", "leaf_object_species", "costs", "object_species", "syntenies", "ordered")
NAME_CHARS = "abcXYZ019_"


def random_name(rng, used):
    """Unique names; a fifth of them differ from an earlier name only by case
    (distinct names all the same)."""
    while True:
        if used and rng.random() < 0.2:
            name = rng.choice(sorted(used)).swapcase()
        else:
            name = "".join(rng.choice(NAME_CHARS) for _ in range(rng.randint(1, 4)))
        if name[0] == "_" or name in used:
            continue
        used.add(name)
        return name


def build_object(A, rng, inp, fam, sol, float_inf=True, colours=True):
    """A model object with random names / colours for the abstract input and
    solution (sol may be None: input only)."""
    used = set()
    onames = [random_name(rng, used) for _ in inp["ot"]]
    used = set()
    snames = [random_name(rng, used) for _ in inp["st"]]
    otree, onodes = proj.build_tree(A.Tree, inp["ot"], "o", onames)
    stree, snodes = proj.build_tree(A.Tree, inp["st"], "s", snames)
    if colours:
        for node in onodes + snodes:
            if rng.random() < 0.35:
                node.add_feature("color", rng.choice(["red", "blue", "#ff8800", "green"]))
    costs = proj.costs_to_impl(A, inp["c"])
    if float_inf:
        for key, val in list(costs.items()):
            if val == A.inf:
                costs[key] = float("inf")
    leaf_map = {onodes[u - 1]: snodes[inp["lm"][u - 1] - 1] for u in proj.leaves_of(inp["ot"])}
    lca = A.trees.LowestCommonAncestor(stree)
    if fam == "dtl":
        rin = A.model.ReconciliationInput(otree, lca, leaf_map, costs)
    else:
        # syntenies are any sequences: lists or tuples (sets for unordered leaves)
        box = rng.choice([list, list, tuple]) if fam == "ord" else rng.choice([list, tuple, set])
        leaf_syn = {onodes[u - 1]: box(f"g{f}" for f in inp["syn"][u - 1]) for u in proj.leaves_of(inp["ot"])}
        rin = A.model.SuperReconciliationInput(otree, lca, leaf_map, costs, leaf_syn)
    if sol is None:
        return rin
    mapping = {onodes[u]: snodes[sol["m"][u] - 1] for u in range(len(sol["m"]))}
    if fam == "dtl":
        return A.model.ReconciliationOutput(rin, mapping)
    box2 = rng.choice([list, list, tuple]) if fam == "ord" else rng.choice([list, tuple, set])
    syn = {onodes[u]: box2(f"g{f}" for f in sol["lab"][u]) for u in range(len(sol["m"]))}
    return A.model.SuperReconciliationOutput(rin, mapping, syn, fam == "ord")


def roundtrip_event(A, obj):
    cls = type(obj)
    before = docproj.document(A, obj)
    d1 = mc.safe(lambda: json.loads(json.dumps(obj.to_dict())))
    if isinstance(d1, mc.Raised):
        return None, f"to_dict / JSON fails: {d1.text}", None
    back = mc.safe(lambda: cls.from_dict(d1))
    if isinstance(back, mc.Raised):
        return None, f"from_dict fails on {d1}: {back.text}", d1
    after = docproj.document(A, back)
    d2 = mc.safe(lambda: json.loads(json.dumps(back.to_dict())))
    if isinstance(d2, mc.Raised):
        return None, f"re-serialising fails: {d2.text}", d1
    again_obj = mc.safe(lambda: cls.from_dict(d2))
    again = docproj.document(A, again_obj) if not isinstance(again_obj, mc.Raised) else dict(after, ot=[-1])

    def listed(d):
        flat = dict(d.get("input", d))
        flat.update({k: v for k, v in d.items() if k != "input"})
        return {k: flat.get(k) for k in LISTED}

    verbatim = listed(d1) == listed(d2)
    for doc in (before, after, again):   # only the listed fields are compared
        doc.pop("leafsyn", None)
    return {"op": "roundtrip", "before": before, "after": after, "again": again if verbatim else dict(again, ot=[-2]),
            "dict": d1}, None, d1


def serial_docs():
    pools = [("a", "A", "b"), ("a", "b", "P"), ("p", "P", "a"), ("a", "a", "b"), ("x", "y", "z"), ("O0", "o0", "S0")]
    docs = []
    for on in pools:
        for sn in pools:
            for m in [(1, 2, 3), (1, 3, 3), (2, 2, 2), (3, 1, 2), (1, 1, 1), (2, 3, 1)]:
                docs.append({"ot": (0, 1, 1), "onames": on, "st": (0, 1, 1), "snames": sn, "m": m})
    return docs


def run(ctx):
    A = proj.api()
    thorough = ctx.tier == "thorough"
    rng = random.Random(ctx.seed * 9091 + 11)
    ctx.rule = ("documents = every binary shape pair <= 4 leaves (sampled leaf data) and solver outputs / random valid "
                "mappings on random trees up to 8 leaves, with random unique names over [abcXYZ019_], colour features on "
                "random nodes, float-infinite transfer cost in a share of them, all four model classes. Non-trivial = "
                "output object with at least one internal node; distinct = distinct projected documents.")
    ctx.assumptions += ["nodes are uniquely named within their tree (the property's premise); only the fields the property "
                        "lists are compared (parsing a labelled solution rebuilds its input with the plain input class, "
                        "which drops input.leaf_syntenies - not a listed field)"]

    # ---- E1 ------------------------------------------------------------------
    from lib.tlaval import Rec
    text = "MCDocs == {" + ",\n".join(to_tla(Rec(d)) for d in serial_docs()) + "}"
    mc.explore(ctx, "Serial", "Serial machine: round trip of uniquely named documents",
               constants={"Docs": "<- MCDocs", "FoldCase": "FALSE"}, properties=["RoundTrip"], mc_text=text)
    mc.refuted(ctx, "Serial", "FoldCase=TRUE (case-insensitive lookup)",
               constants={"Docs": "<- MCDocs", "FoldCase": "TRUE"}, properties=["RoundTrip"], mc_text=text)
    ctx.stage("E1")

    # ---- E2: documents over every small shape pair --------------------------------
    events = []
    shapes = gen.bin_shapes_upto(4)
    n = 0
    for ot in shapes:
        for st in shapes:
            for rep in range(12 if thorough else 4):
                fam = ["dtl", "ord", "un"][(n + rep) % 3]
                n += 1
                c = rng.choice([gen.cost(0, 1, 1, 1, 1), gen.cost(1, 2, INF, 1, 1), gen.cost(2, 0, 3, 1, 0)])
                syn, _ = sc.random_syn(rng, "ord" if fam != "un" else "un", ot, 3, 0.0)
                inp = sc.sinput(ot, st, gen.random_leaf_map(rng, ot, st), c, syn)
                m = [rng.randint(1, len(st)) if u in set(ot) else inp["lm"][u - 1] for u in range(1, len(ot) + 1)]
                lab = [list(inp["syn"][u - 1]) or sorted({f for s in syn for f in s}) for u in range(1, len(ot) + 1)]
                sol = {"m": m, "lab": lab}
                for with_sol in (False, True):
                    obj = build_object(A, rng, inp, fam, sol if with_sol else None)
                    event, err, d1 = roundtrip_event(A, obj)
                    if err:
                        ctx.violation(f"round trip of a {type(obj).__name__}: {err}",
                                      {"engine": "E2", "op": "roundtrip", "class": type(obj).__name__, "dict": d1})
                        continue
                    events.append(event)
                    if with_sol and len(ot) > 1:
                        ctx.nontrivial.add(json.dumps(event["before"], sort_keys=True))
    ctx.stage("E2 documents")

    # ---- E3: solver outputs and random larger reconciliations ----------------------
    for _ in range(700 if thorough else 140):
        fam = rng.choice(["dtl", "ord", "un"])
        sfam = "un" if fam == "dtl" else fam
        inp = sc.random_sinput(rng, sfam, 8 if fam != "ord" else 5, 5, 3, costs=sc.SUPER_COSTS[:4], min_obj=3, p_root=0.0)
        if fam == "dtl":
            from superrec2.compute.reconciliation import reconcile_thl
            built = proj.build_input(A, inp)
            res = mc.safe(lambda: list(reconcile_thl(built.input, A.dp.RetentionPolicy.ANY)))
            if isinstance(res, mc.Raised) or not res:
                continue
            sol = {"m": list(proj.mapping_of(built, res[0])), "lab": []}
        else:
            built = proj.build_input(A, inp, syn=inp["syn"], unordered=(fam == "un"))
            res = mc.safe(lambda: sc._quiet(lambda: list(sc.solver(A, fam, "ext")(built.input, A.dp.RetentionPolicy.ANY))))
            if isinstance(res, mc.Raised) or not res:
                continue
            p = sc.project_solution(A, res[0])
            sol = {"m": p["m"], "lab": p["lab"]}
        obj = build_object(A, rng, inp, fam, sol)
        event, err, d1 = roundtrip_event(A, obj)
        if err:
            ctx.violation(f"round trip of a solver output ({type(obj).__name__}): {err}",
                          {"engine": "E3", "op": "roundtrip", "class": type(obj).__name__, "dict": d1})
            continue
        events.append(event)
        ctx.nontrivial.add(json.dumps(event["before"], sort_keys=True))
    ctx.sample({"engine": "E2/E3-trace", "event": {k: v for k, v in events[-1].items() if k != "again"}})
    ctx.stage("E3")
    mc.validate_sessions(ctx, "TracePipeline", [[e] for e in events], relevant=CLAUSES, count_traces=len(events),
                         describe=lambda e, cl: f"round trip violates {cl}: before {e['before']} after {e['after']} "
                                                f"(again {e['again'].get('ot')}); dictionary {e.get('dict')}")
    doc = {"ot": [0, 1, 1], "onames": ["r", "a", "b"], "ocolors": ["", "red", ""], "st": [0], "snames": ["S"],
           "scolors": [""], "lm": [[2, 1], [3, 1]], "costs": [0, 1, 1, 1, 1], "m": [1, 1, 1], "lab": [], "ordered": -1,
           "events": ["DUPLICATION", "LEAF", "LEAF"], "cost": 1}
    lit = [{"op": "roundtrip", "before": doc, "after": doc, "again": doc}]
    mc.trace_selftest(ctx, "TracePipeline", lit,
                      lambda s: [dict(s[0], after=dict(doc, ocolors=["", "", ""]))], what="a lost colour")
    ctx.stage("trace validation")


def replay(path):
    from lib.harness import Context
    A = proj.api()
    with open(path, encoding="utf-8") as handle:
        case = json.load(handle)["case"]
    event = case.get("event", case)
    d1 = event.get("dict")
    if not d1:
        return 2
    ctx = Context("C11", "quick", 0)
    ctx.known = []
    obj = mc.safe(lambda: docproj.parse_line(A, d1))
    if isinstance(obj, mc.Raised):
        print("cannot parse the recorded dictionary:", obj.text)
        return 1
    ev, err, _ = roundtrip_event(A, obj)
    if err:
        print(err)
        return 1
    print("before:", ev["before"])
    print("after :", ev["after"])
    bad = mc.validate_sessions(ctx, "TracePipeline", [[ev]], relevant=CLAUSES)
    return 1 if bad else 0
