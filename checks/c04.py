"""C04 - every returned solution is a valid, complete (super-)reconciliation.

E1: validity of everything the solver specifications produce is an invariant of
    their models (THL!ResultInv, Ordered!OptValid, Unordered!OptValid), checked
    here again on input sets biased towards sloss = 0 and tie-heavy cost vectors.
E2/E3: all seven algorithms, both policies: plain DTL solvers on the TLC-listed
    input space of C01 (judged against the TLC-computed set of valid
    reconciliations), ordered / unordered solvers on TLC-listed and random
    inputs, and the extended solvers on inputs with polytomies; recorded calls
    judged by TraceDTL / TraceOrdered / TraceUnordered (clauses ClauseValid,
    ClauseTotalMapping, ClauseFiniteCost: leaves kept, no invalid event, finite
    cost, leaf syntenies equal to the input, subsequence / gain-subtree rules).
"""
import random

from lib import gen, proj
from lib.proj import INF
from . import dtl_common as dc
from . import super_common as sc
from . import c03, c08, c08_e2e

CLAUSES = {"ClauseValid", "ClauseTotalMapping", "ClauseFiniteCost"}
DTL_CLAUSES = {"Valid", "TotalMapping", "FiniteCost"}
ALGOS = ("thl_all", "thl_any", "exh_all", "exh_any", "lca")

# tie-heavy vectors (all zeros but one) and sloss = 0, inside the coherent region
TIE_COSTS = [
    gen.cost(0, 0, 0, 0, 0),
    gen.cost(0, 1, 0, 0, 0),
    gen.cost(0, 0, 1, 0, 0),
    gen.cost(0, 0, 0, 1, 0),
    gen.cost(0, 2, 0, 0, 1),
    gen.cost(1, 1, INF, 1, 0),
    gen.cost(0, 1, 1, 1, 0),
]


def run(ctx):
    thorough = ctx.tier == "thorough"
    rng = random.Random(ctx.seed * 9029 + 4)
    ctx.rule = ("all seven algorithms x both policies: DTL inputs (object <= 4 leaves, species <= 3-4 leaves, every leaf "
                "assignment), ordered / unordered inputs (tiny exhaustive + seeded random up to 5-6 object leaves, 4 "
                "families) with default, sloss = 0 and tie-heavy cost vectors, and inputs with polytomies for the extended "
                "solvers. Non-trivial = at least 2 object leaves; distinct = distinct (family, input) records.")
    ctx.assumptions += ["validity as stated by the property (Events!Valid, OrderedOps!ValidOrd, UnorderedOps!ValidUn)"]
    costs = TIE_COSTS + sc.SUPER_COSTS[:3]

    # ---- plain DTL -------------------------------------------------------------
    dcosts = [c for c in costs if proj.coherent_dtl(c)]
    inputs = list(gen.dtl_inputs(gen.bin_shapes_upto(3), gen.bin_shapes_upto(3), dcosts[:6]))
    inputs += rng.sample(list(gen.dtl_inputs(gen.bin_shapes(4), gen.bin_shapes_upto(3), dcosts)), 2500 if thorough else 500)
    inputs = list(dict.fromkeys(inputs))
    dc.tlc_steps(ctx, inputs[::2], "THL SpecSteps (ResultInv: every result valid)")
    expect = dc.tlc_generate(ctx, inputs, "THL SpecGen (valid sets)", invariants=())
    results = dc.replay_all([(inp, ALGOS) for inp in inputs])
    seen = 0
    for inp, obs in results:
        exp = expect.get(inp)
        if exp is None:
            continue
        seen += 1
        if len(inp["ot"]) >= 3:
            ctx.nontrivial.add(("dtl", inp))
        if seen % 900 == 1:
            ctx.sample({"family": "dtl", "input": proj.inp_to_json(inp), "n_valid": len(exp["ranked"]),
                        "thl_all": obs["thl_all"]["sols"][:2]})
        reported = set()
        for algo, clause, text in dc.judge(inp, obs, exp, DTL_CLAUSES):
            if (algo, clause) not in reported:
                reported.add((algo, clause))
                ctx.violation(f"[{clause}] {text} on {proj.inp_to_json(inp)}", dc.case_of(inp, algo, obs[algo], exp))
    ctx.traces += seen
    ctx.evaluations += seen
    ctx.stage("dtl")

    # ---- ordered / unordered -------------------------------------------------------
    cases = []
    for fam, leaf_syns in (("ord", [(1,), (2,), (1, 2), (2, 1)]), ("un", [(1,), (2,), (1, 2)])):
        tiny = list(sc.small_inputs(fam, gen.bin_shapes_upto(3), gen.bin_shapes_upto(2), leaf_syns, TIE_COSTS[:2] + TIE_COSTS[5:6]))
        mid = [sc.random_sinput(rng, fam, 4, 3, 3, costs=costs, min_obj=3) for _ in range(900 if thorough else 160)]
        big = [sc.random_sinput(rng, fam, 5, 4, 4, costs=costs, min_obj=4) for _ in range(500 if thorough else 70)]
        if fam == "un":
            big += [sc.sinput(i["ot"], i["st"], i["lm"], rng.choice(costs), i["syn"])
                    for i in c03.directed_inputs(rng, 400 if thorough else 60)]
        sel = list(dict.fromkeys(tiny[::(1 if thorough else 3)] + mid + big))
        sc.tlc_gen(ctx, fam, list(dict.fromkeys(tiny[::3] + mid)), False, False,
                   f"{sc.FAMS[fam][0]} SpecGen: optimal solutions valid (sloss = 0 and tie-heavy vectors)",
                   invariants=["OptValid"])
        cases += [(fam, inp, sc.CALLS) for inp in sel]
    results = sc.run_all(cases)
    for fam, inp, events in results:
        if len(inp["ot"]) >= 3:
            ctx.nontrivial.add((fam, inp))
    ctx.sample({"engine": "E2/E3-trace", "event": results[-1][2][0]})
    ctx.stage("solver runs")
    sc.validate(ctx, results, CLAUSES)
    ctx.stage("trace validation")

    # ---- inputs with polytomies (extended solvers) -------------------------------------
    from lib import mc
    shapes = gen.poly_shapes_upto(4)
    _, states = mc.explore(ctx, "Binarize", "Binarize refinements (generation)", spec="SpecGen",
                           constants={"PolyShapes": "<- MCPoly", "IgnoreRightBug": "FALSE"}, dump=True,
                           mc_text=c08.shapes_text(shapes))
    refs = {tuple(s["tree"]): s["done"][0] for s in states if s["k"] == -2}
    c08_e2e.run(ctx, None, rng, refs, clauses=CLAUSES | {"ClauseRefinement"}, n=60 if thorough else 16)


def replay(path):
    import json
    with open(path, encoding="utf-8") as handle:
        case = json.load(handle)["case"]
    event = case.get("event", case)
    if event.get("op") == "poly":
        from lib.harness import Context
        ctx = Context("C04", "quick", 0)
        ctx.known = []
        return c08_e2e.replay(ctx, None, case)
    if "fam" in event:
        return sc.replay_case("C04", case, CLAUSES)
    return dc.replay(path, "C04", DTL_CLAUSES, ALGOS)
