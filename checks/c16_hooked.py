"""Child process of C16: runs the real solvers with the Entry tracing hook on
(SUPERREC2_VERIF=1, SUPERREC2_VERIF_TRACE=<file>), one small input per solver
family; the hook appends one JSON line per Entry.update call."""
import json
import sys

from lib import proj
from . import super_common as sc


def main():
    jobs = json.loads(sys.stdin.read())
    A = proj.api()
    from superrec2.compute.reconciliation import reconcile_thl
    done = 0
    for fam, policy, w in jobs:
        inp = sc.sinput_from_json(w)
        pol = A.dp.RetentionPolicy[policy]
        if fam == "dtl":
            built = proj.build_input(A, inp)
            list(reconcile_thl(built.input, pol))
        else:
            built = proj.build_input(A, inp, syn=inp["syn"], unordered=(fam == "un"))
            sc._quiet(lambda: list(sc.solver(A, fam, "ext")(built.input, pol)))
        done += 1
    print(done)


if __name__ == "__main__":
    main()
